"""counterexample replay (stub, filled in later)"""
import json, os
from .run import VERIF

def make_replay(prop, o, unit, repo):
    os.makedirs(os.path.join(VERIF, 'replays'), exist_ok=True)
    path = os.path.join(VERIF, 'replays', '%s-%s.json' % (prop, abs(hash(o['name'] + o['unit'])) % 10**8))
    json.dump({'property': prop, 'obligation': o['name'], 'unit': o['unit'], 'model': o.get('model'), 'goal': o.get('goal')}, open(path, 'w'), indent=1)
    return path, False

def run_replay_file(path):
    print(open(path).read())
    return 0
