"""violation records.  A record names the failed obligation and carries the verifier's output (solver verdict, reason,
counter-model of the verification condition when the solver produced one).  Native replay of a counter-model against the
real code is not implemented: every VIOLATION line therefore ends with no-failing-input-found (DESIGN 0.2)."""
import hashlib
import json
import os

from .run import VERIF


def make_replay(prop, o, unit, repo, extra=None):
    os.makedirs(os.path.join(VERIF, 'replays'), exist_ok=True)
    h = hashlib.sha256((o['name'] + '|' + o['unit']).encode()).hexdigest()[:8]
    path = os.path.join(VERIF, 'replays', '%s-%s.json' % (prop, h))
    rec = {'property': prop, 'obligation': o['name'], 'unit': o['unit'], 'kind': o.get('kind'), 'source_line': o.get('line'),
           'contract_file': unit.path, 'contract_line': (o.get('info') or {}).get('clause_line'),
           'clause': (o.get('info') or {}).get('expr'),
           'verdict': o.get('status'), 'backend': o.get('backend'), 'solver_reason': o.get('reason'), 'solver_s': o.get('time'),
           'weak_model': bool(o.get('weak_model')),
           'counter_model_of_the_vc': o.get('model'), 'goal_tail_smt2': o.get('goal'),
           'failing_input_found': False,
           'how_to_rerun': './check %s --units %s -v' % (prop, o['unit'].split(':')[-1])}
    if extra:
        rec.update(extra)
    json.dump(rec, open(path, 'w'), indent=1, default=str)
    return path, False


def run_replay_file(path):
    """re-run the unit of a recorded violation on the current tree and report whether the obligation still fails"""
    import subprocess
    import sys
    rec = json.load(open(path))
    unit = rec['unit'].split(':')[-1]
    p = subprocess.run([sys.executable, '-m', 'pyvc.run', rec['property'], '--units', unit, '-v'], cwd=VERIF, capture_output=True, text=True)
    core = rec['obligation'].split('@')[0]
    still = [ln for ln in p.stdout.splitlines() if core in ln and ('refuted' in ln or 'unknown' in ln or 'VIOLATION' in ln)]
    print('\n'.join(still) if still else 'obligation %s is discharged on the current tree' % core)
    return 1 if still else 0
