"""violation records.  A record names the failed obligation and carries the verifier's output (solver verdict, reason,
counter-model of the verification condition when the solver produced one).  Native replay of a counter-model against the
real code is not implemented: every VIOLATION line therefore ends with no-failing-input-found (DESIGN 0.2)."""
import hashlib
import json
import os

from .run import VERIF


def make_replay(prop, o, unit, repo, extra=None, unit_meta=None):
    os.makedirs(os.path.join(VERIF, 'replays'), exist_ok=True)
    h = hashlib.sha256((o['name'] + '|' + o['unit']).encode()).hexdigest()[:8]
    path = os.path.join(VERIF, 'replays', '%s-%s.json' % (prop, h))
    rec = {'property': prop, 'obligation': o['name'], 'unit': o['unit'], 'kind': o.get('kind'), 'source_line': o.get('line'),
           'contract_file': unit.path, 'contract_line': (o.get('info') or {}).get('clause_line'),
           'clause': (o.get('info') or {}).get('expr'),
           'verdict': o.get('status'), 'backend': o.get('backend'), 'solver_reason': o.get('reason'), 'solver_s': o.get('time'),
           'weak_model': bool(o.get('weak_model')),
           'counter_model_of_the_vc': o.get('model'), 'goal_tail_smt2': o.get('goal'),
           'failing_input_found': False,
           'how_to_rerun': './check %s --units %s -v' % (prop, o['unit'].split(':')[-1])}
    if extra:
        rec.update(extra)
    confirmed = False
    if o.get('replay_inputs') and unit_meta:
        # native replay: the inputs of the counter-model, the real function under CPython, the failed clause in plain Python
        import subprocess
        from .run import REPO
        nrec = {'unit_key': unit_meta.get('unit_key'), 'contract_file': unit_meta.get('contract_file'), 'unit_line': unit_meta.get('unit_line'),
                'clause_line': (o.get('info') or {}).get('clause_line'), 'obligation': o['name'], 'obligation_kind': o.get('kind'),
                'inputs': o['replay_inputs'], 'repo_root': REPO}
        npath = path[:-5] + '.native.json'
        json.dump(nrec, open(npath, 'w'), indent=1, default=str)
        try:
            p_ = subprocess.run(['/venv/bin/python', os.path.join(VERIF, 'nreplay', 'native.py'), npath, REPO], capture_output=True, text=True, timeout=120)
            rec['native_replay'] = {'cmd': '/venv/bin/python nreplay/native.py %s %s' % (npath, REPO), 'exit': p_.returncode,
                                    'output': (p_.stdout + p_.stderr).strip().splitlines()[-12:], 'inputs': o['replay_inputs']}
            confirmed = (p_.returncode == 1)
        except Exception as e:      # pragma: no cover
            rec['native_replay'] = {'error': str(e)}
    if not confirmed and unit_meta and unit_meta.get('replay') == 'native':
        # no replayable model (loop-invariant failure, undecided obligation): bounded native search over boundary-value
        # inputs that satisfy the unit's preconditions, all ensures clauses evaluated natively on the real function
        import subprocess
        from .run import REPO
        nrec = {'unit_key': unit_meta.get('unit_key'), 'contract_file': unit_meta.get('contract_file'), 'unit_line': unit_meta.get('unit_line'),
                'clause_line': None, 'obligation': o['name'], 'inputs': {}, 'repo_root': REPO}
        npath = path[:-5] + '.search.json'
        json.dump(nrec, open(npath, 'w'), indent=1, default=str)
        try:
            p_ = subprocess.run(['/venv/bin/python', os.path.join(VERIF, 'nreplay', 'native.py'), npath, REPO, '--search'],
                                capture_output=True, text=True, timeout=300)
            rec['native_search'] = {'cmd': '/venv/bin/python nreplay/native.py %s %s --search' % (npath, REPO), 'exit': p_.returncode,
                                    'label': 'bounded native search (boundary-value pools, at most 60000 candidates)',
                                    'output': (p_.stdout + p_.stderr).strip().splitlines()[-12:]}
            confirmed = (p_.returncode == 1)
        except Exception as e:      # pragma: no cover
            rec['native_search'] = {'error': str(e)}
    rec['failing_input_found'] = confirmed
    json.dump(rec, open(path, 'w'), indent=1, default=str)
    return path, confirmed


def run_replay_file(path):
    """re-run the unit of a recorded violation on the current tree and report whether the obligation still fails"""
    import subprocess
    import sys
    rec = json.load(open(path))
    unit = rec['unit'].split(':')[-1]
    p = subprocess.run([sys.executable, '-m', 'pyvc.run', rec['property'], '--units', unit, '-v'], cwd=VERIF, capture_output=True, text=True)
    core = rec['obligation'].split('@')[0]
    still = [ln for ln in p.stdout.splitlines() if core in ln and ('refuted' in ln or 'unknown' in ln or 'VIOLATION' in ln)]
    print('\n'.join(still) if still else 'obligation %s is discharged on the current tree' % core)
    return 1 if still else 0
