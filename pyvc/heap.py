"""typed heap slots, lists, tables, records on top of State.H arrays"""
import z3
from .core import *

TRACE_REF = 600000      # the ghost trace list object (outside the range of pre-state refs and of parameter refs)

KIND_LIST, KIND_BYTES, KIND_BYTEARRAY = 0, 1, 2


def sort_of(st, sk):
    if sk == 'int':
        return st.ar.sort
    if sk == 'real':
        return z3.RealSort()
    return z3.IntSort()


def objref(T_):
    """slot holds a reference to a heap object (not a callable id)"""
    return isinstance(T_, (TRef, TList, TTable, TQueue))


def reflike(T_):
    return isinstance(T_, (TRef, TList, TTable, TFunc, TQueue))


def wf_ref(st, name, base_term, loaded):
    """well-formedness instance facts for a ref-like value loaded from the heap"""
    if st.bound_vars:
        return
    key = ('wf', base_term.get_id() if base_term is not None else None, loaded.get_id())
    if key in st.ghost:
        return
    st.ghost[key] = True
    if z3.is_int_value(loaded):
        return
    if base_term is not None:
        st.pc.append(z3.And(base_term >= 0, base_term < PARAM_REF_BASE))
        if z3.simplify(base_term).get_id() == loaded.get_id():
            st.pre_refs.add(loaded.get_id())
            st.pre_keep.append(loaded)
    nr = st.next_ref_term()
    st.pc.append(z3.And(loaded >= 0, loaded < nr))


def mk_value(st, T_, t):
    """wrap single-slot term t according to static type T_"""
    if isinstance(T_, TInt):
        return VInt(t)
    if isinstance(T_, TReal):
        return VReal(t)
    if isinstance(T_, TBool):
        return VBool(z3.simplify(t != 0))
    if isinstance(T_, TRef):
        return VRef(t, T_.cls)
    if isinstance(T_, TList):
        return VList(t, T_.elem)
    if isinstance(T_, TTable):
        return VTable(t, T_.val)
    if isinstance(T_, TQueue):
        return VQueue(t, T_.elem)
    if isinstance(T_, TFunc):
        # callables of the program have positive ids; the engine's names for opaque repository functions are negative
        if not z3.is_int_value(t):
            st.pc_fact(t > 0)
        return VFunc(t, T_)
    if isinstance(T_, TEnum):
        return VEnum(T_.cls, t)
    if isinstance(T_, TStr):
        return VSymStr(t)
    if isinstance(T_, TNone):
        return VNone()
    if isinstance(T_, TOpt) and T_.single:
        return VUnion([(z3.simplify(t == 0), VNone()), (z3.simplify(t != 0), mk_value(st, T_.base, t))])
    raise EngineError('mk_value: not a single-slot type %r' % (T_,))


def slot_kind(T_):
    if isinstance(T_, TInt):
        return 'int'
    if isinstance(T_, TReal):
        return 'real'
    return 'r'


def load_typed(st, T_, get, wf=None):
    """get(suffix, sortkind) -> term.  wf(suffix, term): add well-formedness facts for refs"""
    if isinstance(T_, TUnion):
        tag = get('#tag', 'r')
        alts = []
        for i, a in enumerate(T_.alts):
            if isinstance(a, TNone):
                alts.append((z3.simplify(tag == i), VNone()))
            else:
                sub = load_typed(st, a, lambda s, k, i=i: get('#u%d%s' % (i, s), k),
                                 (lambda s, t, i=i: wf('#u%d%s' % (i, s), t)) if wf is not None else None)
                alts.append((z3.simplify(tag == i), sub))
        st.pc_fact(z3.And(tag >= 0, tag < len(T_.alts)))
        return VUnion(alts)
    if isinstance(T_, TOpt) and not T_.single:
        none = get('#none', 'r')
        return VUnion([(z3.simplify(none != 0), VNone()), (z3.simplify(none == 0), load_typed(st, T_.base, get, wf))])
    t = get('', slot_kind(T_))
    if wf is not None and (objref(T_) or (isinstance(T_, TOpt) and T_.single and objref(T_.base))):
        wf('', t)
    return mk_value(st, T_, t)


def flatten_union(v):
    """-> list of (cond, nonunion value)"""
    if isinstance(v, VUnion):
        out = []
        for c, a in v.alts:
            for c2, a2 in flatten_union(a):
                out.append((z3.simplify(z3.And(c, c2)), a2))
        return out
    return [(z3.BoolVal(True), v)]


def single_term(st, T_, v):
    """encode non-union value v for a single slot of type T_"""
    ar = st.ar
    if isinstance(T_, TInt):
        if isinstance(v, VInt):
            return ar.force(v.t)
        if isinstance(v, VBool):
            return z3.If(v.t, ar.val(1), ar.val(0))
    elif isinstance(T_, TReal):
        if isinstance(v, VReal):
            return v.t
        if isinstance(v, VInt):
            return z3.ToReal(ar.to_index(v.t))
        if isinstance(v, VBool):
            return z3.If(v.t, z3.RealVal(1), z3.RealVal(0))
    elif isinstance(T_, TBool):
        if isinstance(v, VBool):
            return z3.If(v.t, z3.IntVal(1), z3.IntVal(0))
        if isinstance(v, VInt):
            return z3.If(ar.to_index(v.t) != 0, z3.IntVal(1), z3.IntVal(0))
    elif isinstance(T_, TRef):
        if isinstance(v, VRef):
            return v.t
    elif isinstance(T_, TList):
        if isinstance(v, VList):
            return v.t
    elif isinstance(T_, TTable):
        if isinstance(v, VTable):
            return v.t
    elif isinstance(T_, TQueue):
        if isinstance(v, VQueue):
            return v.t
    elif isinstance(T_, TFunc):
        if isinstance(v, VFunc):
            return v.t
        if isinstance(v, VBound):
            return st.eng.bound_id(st, v)
    elif isinstance(T_, TEnum):
        if isinstance(v, VEnum) and v.cls == T_.cls:
            return v.t
    elif isinstance(T_, TStr):
        if isinstance(v, VSymStr):
            return v.t
        if isinstance(v, VStr):
            return st.eng.str_id(v.s)
    elif isinstance(T_, TOpt) and T_.single:
        if isinstance(v, VNone):
            return z3.IntVal(0)
        return single_term(st, T_.base, v)
    raise EngineError('cannot store %r into slot of type %r (line %s)' % (v, T_, st.cur_line))


def store_typed(st, T_, v, put):
    """put(suffix, sortkind, term)"""
    if isinstance(T_, TUnion):
        alts = flatten_union(v)
        tag = None
        payload = {}
        for c, a in alts:
            idx = None
            for i, at in enumerate(T_.alts):
                if type_exact(at, a):
                    idx = i
                    break
            if idx is None:
                for i, at in enumerate(T_.alts):
                    if type_accepts(at, a):
                        idx = i
                        break
            if idx is None:
                raise EngineError('value %r fits no alternative of %r (line %s)' % (a, T_, st.cur_line))
            tag = z3.IntVal(idx) if tag is None else z3.If(c, z3.IntVal(idx), tag)
            if not isinstance(T_.alts[idx], TNone):
                store_typed(st, T_.alts[idx], a, lambda s, k, t, c=c, idx=idx: payload.setdefault(('#u%d%s' % (idx, s), k), []).append((c, t)))
        put('#tag', 'r', tag)
        for (suf, k), lst in payload.items():
            term = lst[0][1]
            for c, t in lst[1:]:
                term = z3.If(c, t, term)
            put(suf, k, term)
        return
    if isinstance(T_, TOpt) and not T_.single:
        alts = flatten_union(v)
        none = None
        pay = []
        for c, a in alts:
            isn = isinstance(a, VNone)
            none = z3.IntVal(1 if isn else 0) if none is None else z3.If(c, z3.IntVal(1 if isn else 0), none)
            if not isn:
                pay.append((c, a))
        put('#none', 'r', none)
        if pay:
            collected = {}
            for c, a in pay:
                store_typed(st, T_.base, a, lambda s, k, t, c=c: collected.setdefault((s, k), []).append((c, t)))
            for (suf, k), lst in collected.items():
                term = lst[0][1]
                for c, t in lst[1:]:
                    term = z3.If(c, t, term)
                put(suf, k, term)
        return
    alts = flatten_union(v)
    if len(alts) > 1 and not st.spec:
        alts = [(c, a) for c, a in alts if st.feasible(c)]
    term = None
    for c, a in alts:
        t = single_term(st, T_, a)
        term = t if term is None else z3.If(c, t, term)
    put('', slot_kind(T_), term)


def type_exact(T_, v):
    if isinstance(T_, TInt):
        return isinstance(v, VInt)
    if isinstance(T_, TBool):
        return isinstance(v, VBool)
    if isinstance(T_, TReal):
        return isinstance(v, VReal)
    return type_accepts(T_, v)


def type_accepts(T_, v):
    if isinstance(T_, TNone):
        return isinstance(v, VNone)
    if isinstance(T_, TInt):
        return isinstance(v, (VInt, VBool))
    if isinstance(T_, TBool):
        return isinstance(v, VBool)
    if isinstance(T_, TReal):
        return isinstance(v, (VReal, VInt))
    if isinstance(T_, TRef):
        return isinstance(v, VRef)
    if isinstance(T_, TList):
        return isinstance(v, VList)
    if isinstance(T_, TFunc):
        return isinstance(v, (VFunc, VBound))
    if isinstance(T_, TEnum):
        return isinstance(v, VEnum) and v.cls == T_.cls
    if isinstance(T_, TTable):
        return isinstance(v, VTable)
    if isinstance(T_, TStr):
        return isinstance(v, (VStr, VSymStr))
    if isinstance(T_, TOpt):
        return isinstance(v, VNone) or type_accepts(T_.base, v)
    return False


# ---------------------------------------------------------------------------
# fields
# ---------------------------------------------------------------------------
def field_load(st, arrname, T_, ref):
    H = st.cur_heap()

    def get(suf, k):
        name = arrname + suf
        return st.hget_in(H, name, sort_of(st, k), ref)

    def wf(suf, t):
        name = arrname + suf
        base = st.H0.get(name)
        wf_ref(st, name, z3.Select(base, ref) if base is not None else None, t)
        if H is st.H:
            st.wf_array(name, 'ref')
    return load_typed(st, T_, get, wf)


def field_store(st, arrname, T_, ref, v):
    def put(suf, k, term):
        st.hset(arrname + suf, sort_of(st, k), ref, term)
    store_typed(st, T_, v, put)


# ---------------------------------------------------------------------------
# lists
# ---------------------------------------------------------------------------
def elem_arr(T_):
    if isinstance(T_, TInt):
        return 'EL'
    # object references are kept apart from booleans / callable ids / enum values (closed well-formedness axioms)
    return 'ER' if (objref(T_) or (isinstance(T_, TOpt) and objref(T_.base))) else 'EX'


def inner_sort(st, T_):
    return z3.ArraySort(z3.IntSort(), st.ar.sort if isinstance(T_, TInt) else z3.IntSort())


def list_len(st, L):
    if isinstance(L, VSeq):
        return L.len
    H = st.cur_heap()
    t = st.hget_in(H, 'LEN', z3.IntSort(), L.t)
    if H is st.H:
        st.wf_array('LEN', 'len')
    if not z3.is_int_value(t):
        base = st.H0.get('LEN')
        if base is not None:
            st.pc_fact(z3.Select(base, L.t) >= 0)
        st.pc_fact(t >= 0)
    return t


def list_inner(st, L):
    H = st.cur_heap()
    return st.hget_in(H, elem_arr(L.elem), inner_sort(st, L.elem), L.t)


def list_get(st, L, idx):
    """idx: Int-sorted term, assumed in range"""
    if isinstance(L, VSeq):
        return L.get(idx)
    if not L.elem.single:
        raise Unsupported('list element type %r' % (L.elem,))
    inner = list_inner(st, L)
    t = z3.simplify(z3.Select(inner, idx))
    if elem_arr(L.elem) == 'ER':
        base = st.H0.get('ER')
        wf_ref(st, 'ER', z3.Select(z3.Select(base, L.t), idx) if base is not None else None, t)
        if st.cur_heap() is st.H:
            st.wf_array('ER', 'ref2')
    return mk_value(st, L.elem, t)


def list_kind(st, L):
    if isinstance(L, VSeq):
        return L.kind if L.kind is not None else z3.IntVal(KIND_LIST)
    return st.hget_in(st.cur_heap(), 'KIND', z3.IntSort(), L.t)


def list_alloc(st, elem, length, inner=None, kind=KIND_LIST):
    r = st.new_ref()
    st.hset('LEN', z3.IntSort(), r, length if z3.is_expr(length) else z3.IntVal(length))
    if inner is not None:
        st.hset(elem_arr(elem), inner_sort(st, elem), r, inner)
    st.hset('KIND', z3.IntSort(), r, kind if z3.is_expr(kind) else z3.IntVal(kind))
    return VList(r, elem)


def list_set_len(st, L, length):
    st.hset('LEN', z3.IntSort(), L.t, length)


def list_set_inner(st, L, inner):
    st.hset(elem_arr(L.elem), inner_sort(st, L.elem), L.t, inner)


def elem_term(st, L, v):
    alts = flatten_union(v)
    if len(alts) > 1 and not st.spec and not st.bound_vars:
        # alternatives the path condition excludes (e.g. None after an `is not None` test) are not stored
        alts = [(c, a) for c, a in alts if st.feasible(c)] or alts
    term = None
    for c, a in alts:
        t = single_term(st, L.elem, a)
        term = t if term is None else z3.If(c, t, term)
    return term


def seq_of(st, L):
    """functional view of a heap list in the current heap (spec mode)"""
    if isinstance(L, VSeq):
        return L
    H = st.cur_heap()
    inner = st.hget_in(H, elem_arr(L.elem), inner_sort(st, L.elem), L.t)
    n = list_len(st, L)
    elem = L.elem
    kind = list_kind(st, L)

    def get(i, inner=inner, elem=elem):
        return mk_value(st, elem, z3.Select(inner, i))
    return VSeq(n, get, elem, kind, inner if isinstance(elem, TInt) else None)


# ---------------------------------------------------------------------------
# tables (int-keyed dicts)
# ---------------------------------------------------------------------------
DOM_SORT = z3.ArraySort(z3.IntSort(), z3.BoolSort())
VAL_SORT = z3.ArraySort(z3.IntSort(), z3.IntSort())


def table_dom(st, tb):
    return st.hget_in(st.cur_heap(), 'DOM', DOM_SORT, tb.t)


def table_val(st, tb):
    return st.hget_in(st.cur_heap(), 'VAL', VAL_SORT, tb.t)


def table_has(st, tb, key):
    return z3.simplify(z3.Select(table_dom(st, tb), key))


def table_get(st, tb, key):
    t = z3.simplify(z3.Select(table_val(st, tb), key))
    if st.cur_heap() is st.H:
        st.wf_array('VAL', 'ref2')
    base = st.H0.get('VAL')
    wf_ref(st, 'VAL', z3.Select(z3.Select(base, tb.t), key) if base is not None else None, t)
    return mk_value(st, tb.val, t)


def table_put(st, tb, key, v):
    st.hset('DOM', DOM_SORT, tb.t, z3.Store(table_dom(st, tb), key, z3.BoolVal(True)))
    st.hset('VAL', VAL_SORT, tb.t, z3.Store(table_val(st, tb), key, single_term(st, tb.val, v)))


def table_del(st, tb, key):
    st.hset('DOM', DOM_SORT, tb.t, z3.Store(table_dom(st, tb), key, z3.BoolVal(False)))


def table_alloc(st, val):
    r = st.new_ref()
    st.hset('DOM', DOM_SORT, r, z3.K(z3.IntSort(), z3.BoolVal(False)))
    return VTable(r, val)
