"""sidecar contract files: parsed with ast, never imported into the repository.

A contract file contains functions decorated with @unit("module:Qual", ...).  The body of
such a function is a list of clauses written as calls:

    requires(e, ...)            ensures("label", e, props=[...])      raises("Exc", when=e, post=e)
    invariant(loop, e, ...)     unroll(loop, k)                       decreases(loop, e)
    modifies(...)               cases(e, [v, ...])                    kwargs("name", ...)
    opaque("Class.method", ..)  inline("Class.method", ...)           bycontract("Class.method", ...)
    callout_check("label", e)   let(name, e)                          assume("why", e)
    returns("type")             effects("none"|"everything")          ghost(name, e)

Undecorated top-level functions in contract and spec files are *spec functions* (pure,
expression level), usable from clauses.
"""
import ast
import os

from .core import *


class Clause:
    def __init__(self, kind, args, kw, line):
        self.kind = kind
        self.args = args
        self.kw = kw
        self.line = line


class Unit:
    def __init__(self, key, opts, node, path):
        self.key = key
        self.opts = opts
        self.node = node
        self.path = path
        self.name = key + ('[%s]' % opts['variant'] if opts.get('variant') else '')
        self.arith = opts.get('arith', 'int')
        self.width = opts.get('width', 48)
        self.props = list(opts.get('props', []))
        self.clauses = []
        self.param_names = [a.arg for a in node.args.args]
        self.param_types = {}
        for a in node.args.args:
            if a.annotation is not None:
                ann = a.annotation
                self.param_types[a.arg] = ann.value if isinstance(ann, ast.Constant) else ast.unparse(ann)
        if node.args.kwarg is not None:
            self.kwarg_name = node.args.kwarg.arg
        else:
            self.kwarg_name = None
        for stmt in node.body:
            if isinstance(stmt, ast.Expr) and isinstance(stmt.value, ast.Constant):
                continue
            if isinstance(stmt, ast.Pass):
                continue
            if not (isinstance(stmt, ast.Expr) and isinstance(stmt.value, ast.Call) and isinstance(stmt.value.func, ast.Name)):
                raise EngineError('%s:%d: contract body must consist of clause calls' % (path, stmt.lineno))
            c = stmt.value
            self.clauses.append(Clause(c.func.id, c.args, {k.arg: k.value for k in c.keywords}, stmt.lineno))

    def of(self, *kinds):
        return [c for c in self.clauses if c.kind in kinds]

    def strs(self, kind):
        out = []
        for c in self.of(kind):
            for a in c.args:
                out.append(ast.literal_eval(a))
        return out

    def loop_clauses(self, qual, ordinal, kind):
        """clauses of `kind` for loop `ordinal` of function `qual` (None: the unit's own function)"""
        out = []
        for c in self.of(kind):
            a0 = ast.literal_eval(c.args[0])
            if isinstance(a0, int):
                fq, od, rest = None, a0, c.args[1:]
            else:
                fq, od, rest = a0, ast.literal_eval(c.args[1]), c.args[2:]
            if od == ordinal and (fq == qual or (fq is None and qual is None)):
                out.append((c, rest))
        return out


class SpecFunc:
    def __init__(self, name, node, path):
        self.name = name
        self.node = node
        self.path = path


def load_contract_dir(dirs):
    units = []
    spec_funcs = {}
    spec_consts = {}
    for d in dirs:
        for fn in sorted(os.listdir(d)):
            if not fn.endswith('.py') or fn == 'shapes.py' or fn.startswith('_'):
                continue
            path = os.path.join(d, fn)
            tree = ast.parse(open(path).read(), filename=path)
            for node in tree.body:
                if isinstance(node, ast.FunctionDef):
                    dec = None
                    for dd in node.decorator_list:
                        if isinstance(dd, ast.Call) and isinstance(dd.func, ast.Name) and dd.func.id == 'unit':
                            dec = dd
                    if dec is None:
                        if node.name in spec_funcs:
                            raise EngineError('duplicate spec function %s (%s)' % (node.name, path))
                        spec_funcs[node.name] = SpecFunc(node.name, node, path)
                        continue
                    key = ast.literal_eval(dec.args[0])
                    opts = {k.arg: ast.literal_eval(k.value) for k in dec.keywords}
                    units.append(Unit(key, opts, node, path))
                elif isinstance(node, ast.Assign) and len(node.targets) == 1 and isinstance(node.targets[0], ast.Name):
                    try:
                        spec_consts[node.targets[0].id] = eval(compile(ast.Expression(node.value), path, 'eval'), {'__builtins__': {}}, dict(spec_consts))
                    except Exception as e:
                        raise EngineError('%s: cannot evaluate constant %s: %s' % (path, node.targets[0].id, e))
    names = set()
    for u in units:
        if u.name in names:
            raise EngineError('duplicate unit ' + u.name)
        names.add(u.name)
    return units, spec_funcs, spec_consts


class Schema:
    """declared shapes: class fields and record keys"""

    def __init__(self, path):
        self.classes = {}
        self.keys = {}
        self.rec_keys = {}
        self.ext_methods = {}
        ns = {'INT': INT, 'BOOL': BOOL, 'REAL': REAL, 'NONE': NONE, 'STR': STR, 'FUNC': FUNC, 'OCTETS': OCTETS,
              'TRef': TRef, 'TList': TList, 'TTable': TTable, 'TOpt': TOpt, 'TUnion': TUnion, 'TFunc': TFunc,
              'TEnum': TEnum, 'TQueue': TQueue, 'ANY': T_ANY, 'TTuple': TTuple,
              'cls': self._cls, 'rec': self._rec, 'key': self._key, 'ext': self._ext, 'TTuple': TTuple}
        exec(compile(open(path).read(), path, 'exec'), ns)

    def _ext(self, name, **methods):
        """methods of an external class (not in the repository): name -> result type; calls yield arbitrary values"""
        for m, t in methods.items():
            self.ext_methods[(name, m)] = t

    def _cls(self, name, **fields):
        self.classes.setdefault(name, {}).update(fields)

    def _rec(self, name, **keys):
        self.rec_keys.setdefault(name, {}).update(keys)
        for k, t in keys.items():
            self.keys[(name, k)] = t

    def _key(self, **keys):
        for k, t in keys.items():
            self.keys[(None, k)] = t

    def field_type(self, cls, attr):
        d = self.classes.get(cls)
        if d is None:
            return None
        return d.get(attr)

    def key_type(self, reccls, key):
        t = self.keys.get((reccls, key))
        if t is None:
            t = self.keys.get((None, key))
        if t is None and reccls is None:
            # a record whose class is not known yet: the key type must be unique over all records
            cands = [v for (c, k), v in self.keys.items() if k == key]
            kinds = set(repr(c) for c in cands)
            if len(kinds) == 1:
                return cands[0]
        return t

    def classes_with_attr(self, attr):
        return [c for c, d in self.classes.items() if attr in d]


def parse_type(s, schema=None):
    ns = {'int': INT, 'bool': BOOL, 'real': REAL, 'none': NONE, 'str': STR, 'func': FUNC, 'octets': OCTETS,
          'ref': TRef, 'list': TList, 'table': TTable, 'opt': TOpt, 'union': TUnion, 'enum': TEnum,
          'funcT': TFunc, 'queue': TQueue, 'tuple': TTuple, 'kwargs': 'kwargs', 'any': 'any', 'ANY': T_ANY}
    try:
        return eval(s, {'__builtins__': {}}, _TypeNS(ns))
    except Exception as e:
        raise EngineError('bad type annotation %r: %s' % (s, e))


class _TypeNS(dict):
    def __init__(self, d):
        super().__init__(d)

    def __missing__(self, k):
        return TRef(k)      # bare class name
