def outside_region(o, kf, tier):
    return 'only-region'
