"""pyvc - verification-condition generator for a Python subset (see /verif/DESIGN.md)"""
