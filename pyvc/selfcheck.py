"""setup / self check: tool presence and a few engine regression snippets with known verdicts"""
import os
import shutil
import sys


def main():
    ok = True
    try:
        import z3
        print('z3', z3.get_version_string())
    except Exception as e:
        print('z3 python API missing:', e)
        ok = False
    print('cvc5 binary:', shutil.which('cvc5') or '/usr/bin/cvc5 missing (fallback only)')
    print('replay interpreter:', '/venv/bin/python', os.path.exists('/venv/bin/python'))
    from .run import load_all
    repo, schema, units, spec_funcs, spec_consts = load_all()
    print('repository functions indexed:', len(repo.funcs), 'contract units:', len(units), 'spec functions:', len(spec_funcs))
    # engine regression: a deliberately wrong contract must be refuted, a right one proved
    from .selftest_engine import run_selftests
    ok = run_selftests() and ok
    return 0 if ok else 3


if __name__ == '__main__':
    sys.exit(main())
