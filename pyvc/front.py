"""pyvc front end: read the real sources of /repo/j1939 on every run and index them.

Nothing is imported from the repository; it is only parsed.  For every function the
source segment, line span and sha256 are recorded (extraction fingerprint), together
with the node kinds the extraction drops.
"""
import ast
import enum
import hashlib
import os

from .core import EngineError


class FuncInfo:
    def __init__(self, module, cls, name, node, kind, src, path):
        self.module = module            # 'j1939.message_id'
        self.cls = cls                  # ClassInfo or None
        self.name = name
        self.node = node
        self.kind = kind                # 'method' | 'getter' | 'setter' | 'function'
        self.path = path
        seg = ast.get_source_segment(src, node) or ''
        self.sha256 = hashlib.sha256(seg.encode()).hexdigest()
        self.lines = (node.lineno, node.end_lineno)
        self.source = seg

    @property
    def qual(self):
        base = (self.cls.name + '.' if self.cls else '') + self.name
        if self.kind in ('getter', 'setter'):
            base += '.' + self.kind
        return base

    @property
    def key(self):
        return self.module + ':' + self.qual

    def params(self):
        a = self.node.args
        names = [x.arg for x in a.posonlyargs + a.args]
        return names

    def __repr__(self):
        return 'FuncInfo(%s)' % self.key


class ClassInfo:
    def __init__(self, module, name, node, outer=None):
        self.module = module
        self.name = name                # dotted for nested: 'J1939_21.ConnectionMode'
        self.node = node
        self.outer = outer
        self.methods = {}               # name -> FuncInfo
        self.getters = {}
        self.setters = {}
        self.consts = {}                # name -> python value
        self.nested = {}                # name -> ClassInfo
        self.bases = []
        self.is_enum = False
        self.enum_members = {}          # name -> int value
        self.pyenum = None

    @property
    def short(self):
        return self.name.split('.')[-1]

    def __repr__(self):
        return 'ClassInfo(%s)' % self.name


class Repo:
    def __init__(self, root='/repo', package='j1939'):
        self.root = root
        self.package = package
        self.modules = {}       # modname -> ast.Module
        self.sources = {}
        self.paths = {}
        self.classes = {}       # short dotted name -> ClassInfo   (unique in this repo)
        self.funcs = {}         # 'module:Qual' -> FuncInfo
        self.module_consts = {}  # modname -> {name: pyvalue}
        self.module_names = {}  # modname -> {localname: ('class', ClassInfo) | ('module', name)}
        self._load()

    def _load(self):
        pkgdir = os.path.join(self.root, self.package)
        if not os.path.isdir(pkgdir):
            raise EngineError('package directory not found: ' + pkgdir)
        for fn in sorted(os.listdir(pkgdir)):
            if not fn.endswith('.py'):
                continue
            path = os.path.join(pkgdir, fn)
            src = open(path, encoding='utf-8').read()
            try:
                tree = ast.parse(src, filename=path)
            except SyntaxError as e:
                raise EngineError('cannot parse %s: %s' % (path, e))
            mod = self.package + '.' + fn[:-3]
            self.modules[mod] = tree
            self.sources[mod] = src
            self.paths[mod] = path
        for mod, tree in self.modules.items():
            self._index_module(mod, tree)
        # second pass: class constants and module constants need the enum classes
        for mod, tree in self.modules.items():
            self._eval_consts(mod, tree)

    # ------------------------------------------------------------------
    def _index_module(self, mod, tree):
        src = self.sources[mod]
        for node in tree.body:
            if isinstance(node, ast.ClassDef):
                self._index_class(mod, node, None, src)
            elif isinstance(node, ast.FunctionDef):
                fi = FuncInfo(mod, None, node.name, node, 'function', src, self.paths[mod])
                self.funcs[fi.key] = fi

    def _index_class(self, mod, node, outer, src):
        name = (outer.name + '.' if outer else '') + node.name
        ci = ClassInfo(mod, name, node, outer)
        for b in node.bases:
            ci.bases.append(ast.unparse(b))
        ci.is_enum = any(b.split('.')[-1] == 'Enum' for b in ci.bases)
        self.classes[name] = ci
        if outer:
            outer.nested[node.name] = ci
        for item in node.body:
            if isinstance(item, ast.ClassDef):
                self._index_class(mod, item, ci, src)
            elif isinstance(item, ast.FunctionDef):
                kind = 'method'
                for d in item.decorator_list:
                    ds = ast.unparse(d)
                    if ds == 'property':
                        kind = 'getter'
                    elif ds.endswith('.setter'):
                        kind = 'setter'
                fi = FuncInfo(mod, ci, item.name, item, kind, src, self.paths[mod])
                if kind == 'getter':
                    ci.getters[item.name] = fi
                elif kind == 'setter':
                    ci.setters[item.name] = fi
                else:
                    ci.methods[item.name] = fi
                self.funcs[fi.key] = fi
        return ci

    # ------------------------------------------------------------------
    def _eval_consts(self, mod, tree):
        """evaluate class-level and module-level constant assignments concretely"""
        ns = self._const_namespace()
        mconsts = {}
        for node in tree.body:
            if isinstance(node, ast.ClassDef):
                self._eval_class_consts(self.classes[node.name], ns)
            elif isinstance(node, ast.Assign) and len(node.targets) == 1 and isinstance(node.targets[0], ast.Name):
                try:
                    v = eval(compile(ast.Expression(node.value), '<const>', 'eval'), {'__builtins__': {}}, dict(ns, **mconsts))
                except Exception:
                    continue
                if _is_plain(v):
                    mconsts[node.targets[0].id] = v
        self.module_consts[mod] = mconsts

    def _const_namespace(self):
        ns = {}
        for name, ci in self.classes.items():
            if '.' in name:
                continue
            if ci.is_enum:
                if ci.pyenum is None:
                    members = {}
                    for item in ci.node.body:
                        if isinstance(item, ast.Assign) and len(item.targets) == 1 and isinstance(item.targets[0], ast.Name):
                            try:
                                members[item.targets[0].id] = ast.literal_eval(item.value)
                            except Exception:
                                pass
                    ci.enum_members = members
                    ci.pyenum = enum.Enum(ci.name, members)
                ns[name] = ci.pyenum
        return ns

    def _eval_class_consts(self, ci, ns):
        if ci.is_enum:
            if ci.pyenum is None:
                self._const_namespace()
            return
        local = {}
        for item in ci.node.body:
            if isinstance(item, ast.ClassDef):
                sub = self.classes[ci.name + '.' + item.name]
                self._eval_class_consts(sub, ns)
                local[item.name] = _NS(sub.consts)
            elif isinstance(item, ast.Assign) and len(item.targets) == 1 and isinstance(item.targets[0], ast.Name):
                try:
                    v = eval(compile(ast.Expression(item.value), '<const>', 'eval'), {'__builtins__': {}}, dict(ns, **local))
                except Exception:
                    continue
                if _is_plain(v):
                    local[item.targets[0].id] = v
                    ci.consts[item.targets[0].id] = v

    # ------------------------------------------------------------------
    def find_class(self, name):
        return self.classes.get(name)

    def find_func(self, key):
        """key: 'module:Class.method' | 'module:Class.prop.getter' | 'Class.method' (unique)"""
        if key in self.funcs:
            return self.funcs[key]
        if ':' not in key:
            cands = [f for k, f in self.funcs.items() if k.split(':', 1)[1] == key]
            if len(cands) == 1:
                return cands[0]
        return None

    def fingerprint(self, fi):
        return {'function': fi.key, 'file': fi.path, 'lines': list(fi.lines), 'sha256': fi.sha256}


class _NS:
    def __init__(self, d):
        self.__dict__.update(d)


def _is_plain(v):
    if isinstance(v, (int, float, str, bool, type(None))):
        return True
    if isinstance(v, (list, tuple)):
        return all(_is_plain(x) for x in v)
    if isinstance(v, dict):
        return all(_is_plain(k) and _is_plain(x) for k, x in v.items())
    return False


# node kinds dropped by the extraction (reported in evidence)
def dropped_nodes(fi):
    dropped = {'docstring': 0, 'annotation': 0, 'logger_call': 0, 'print_call': 0}
    for node in ast.walk(fi.node):
        if isinstance(node, (ast.FunctionDef,)) and ast.get_docstring(node):
            dropped['docstring'] += 1
        if isinstance(node, ast.arg) and node.annotation is not None:
            dropped['annotation'] += 1
        if isinstance(node, ast.AnnAssign):
            dropped['annotation'] += 1
        if isinstance(node, ast.Expr) and isinstance(node.value, ast.Call):
            f = node.value.func
            if isinstance(f, ast.Attribute) and isinstance(f.value, ast.Name) and f.value.id == 'logger':
                dropped['logger_call'] += 1
            if isinstance(f, ast.Name) and f.id == 'print':
                dropped['print_call'] += 1
    return {k: v for k, v in dropped.items() if v}
