"""pyvc engine: unit execution, contracts at calls, loops, call-outs, spec builtins."""
import ast
import time as _time
import z3

from .core import *
from .heap import *
from .interp import Interp, BreakEx, ContinueEx, ReturnEx, RealOf
from .contracts import Unit, parse_type
from .front import dropped_nodes

DEFAULT_UNROLL = 70


def _mentions(term, vars_):
    if not vars_:
        return False
    ids = set(v.get_id() for v in vars_)
    seen = set()
    stack = [term]
    while stack:
        t = stack.pop()
        i = t.get_id()
        if i in seen:
            continue
        seen.add(i)
        if i in ids:
            return True
        stack.extend(t.children())
    return False


def _is_star(x):
    return isinstance(x, str) and x == '*'


class Outcome:
    def __init__(self, kind, value=None):
        self.kind = kind        # 'return' | 'raise'
        self.value = value


class UnitResult:
    def __init__(self, unit):
        self.unit = unit
        self.obligations = []
        self.paths = 0
        self.paths_ended = 0
        self.error = None
        self.fingerprints = []
        self.inlined = set()
        self.by_contract = set()
        self.opaque = set()
        self.assumptions = set()
        self.dropped = {}
        self.symex_s = 0.0
        self.solver_checks = 0
        self.outcomes = {'return': 0, 'raise': 0}
        self.cover = {}


class Engine:
    def __init__(self, repo, schema, units, spec_funcs, spec_consts, unit):
        self.repo = repo
        self.schema = schema
        self.units = units                  # all units (for contracts at calls)
        self.units_by_key = {}
        for u in units:
            self.units_by_key.setdefault(u.key, []).append(u)
        self.spec_funcs = spec_funcs
        self.spec_consts = spec_consts
        self.unit = unit
        self.ar = Arith(unit.arith, unit.width)
        self.solver = SolverStack()
        self.str_ids = {}
        self.ufuns = {}
        self.T_ANY = T_ANY
        self.result = UnitResult(unit)
        self.loop_ordinals = {}
        self.cls_ids = {}

    # ------------------------------------------------------------------
    def str_id(self, s):
        if s not in self.str_ids:
            self.str_ids[s] = len(self.str_ids) + 1
        return z3.IntVal(self.str_ids[s])

    def cls_id(self, name):
        if name not in self.cls_ids:
            self.cls_ids[name] = len(self.cls_ids) + 1
        return self.cls_ids[name]

    def ufun(self, name, n, ret=None, argsorts=None):
        key = (name, n)
        if key not in self.ufuns:
            sorts = (argsorts if argsorts is not None else [z3.IntSort()] * n) + [ret if ret is not None else z3.IntSort()]
            self.ufuns[key] = z3.Function(name, *sorts)
        return self.ufuns[key]

    def bound_id(self, st, b):
        """injective id of a bound method (qual, receiver)"""
        q = self.str_id('fn:' + b.qual.qual)
        f = self.ufun('bm', 2)
        t = f(q, b.recv.t)
        st.pc_fact(z3.And(self.ufun('bm_q', 1)(t) == q, self.ufun('bm_r', 1)(t) == b.recv.t, t > 0))
        return t

    def fn_const(self, qual):
        return z3.IntVal(-self.str_id('fn:' + qual).as_long())

    # ------------------------------------------------------------------
    # running a unit
    # ------------------------------------------------------------------
    def run(self, max_paths=4000):
        u = self.unit
        res = self.result
        t0 = _time.time()
        if u.key.startswith('lemma:'):
            fi = None
        else:
            fi = self.repo.find_func(u.key)
            if fi is None:
                raise EngineError('function under contract not found in repository: ' + u.key)
            res.fingerprints.append(self.repo.fingerprint(fi))
            res.dropped[fi.key] = dropped_nodes(fi)
            real_params = fi.params()
            if real_params != u.param_names:
                raise EngineError('contract %s lists parameters %s but the function has %s' % (u.name, u.param_names, real_params))
        self.fi = fi
        worklist = [[]]
        while worklist:
            prefix = worklist.pop()
            if res.paths >= max_paths:
                raise EngineError('path limit exceeded in ' + u.name)
            oracle = Oracle(prefix)
            st = State(self, oracle)
            st.path_id = res.paths
            st.unit = u
            res.paths += 1
            it = Interp(self, st)
            try:
                self.run_path(it, st, fi)
            except PathEnd:
                res.paths_ended += 1
            res.obligations.extend(st.obligations)
            res.assumptions |= st.assumptions_used
            worklist.extend(oracle.pending)
        res.symex_s = _time.time() - t0
        res.solver_checks = self.solver.n_checks
        return res

    def make_param(self, it, st, name, tstr, k):
        T_ = parse_type(tstr) if tstr else INT
        ar = self.ar
        if T_ == 'any':
            return self.sym_value(st, self.T_ANY, 'p!' + name, PARAM_REF_BASE + k)
        if T_ == 'kwargs':
            names = []
            types = {}
            for c in self.unit.of('kwargs'):
                for a in c.args:
                    names.append(ast.literal_eval(a))
                for kk, vv in c.kw.items():
                    types[kk] = ast.literal_eval(vv)
                    if kk not in names:
                        names.append(kk)
            d = {}
            for j, n in enumerate(names):
                d[n] = self.make_param(it, st, 'kw_' + n, types.get(n, 'int'), 50 + j)
            return VKwargs(d)
        return self.sym_value(st, T_, 'p!' + name, PARAM_REF_BASE + k)

    def sym_value(self, st, T_, base, ref=None):
        ar = self.ar
        if isinstance(T_, TInt):
            return VInt(ar.const(base))
        if isinstance(T_, TBool):
            return VBool(z3.Bool(base))
        if isinstance(T_, TReal):
            return VReal(z3.Real(base))
        if isinstance(T_, TNone):
            return VNone()
        if isinstance(T_, TStr):
            return VSymStr(z3.Int(base))
        if isinstance(T_, TEnum):
            return VEnum(T_.cls, z3.Int(base))
        if isinstance(T_, TFunc):
            f_ = z3.Int(base)
            st.pc.append(f_ > 0)
            return VFunc(f_, T_)
        if isinstance(T_, TTuple):
            return VTuple([self.sym_value(st, t, '%s#%d' % (base, i)) for i, t in enumerate(T_.items)])
        if isinstance(T_, (TRef, TList, TTable, TQueue)):
            if ref is not None:
                r = z3.IntVal(ref)
            else:
                # an object handed in from outside (call-out result): some pre-existing object
                r = z3.Int(base)
                st.pc.append(z3.And(r > 0, r < PARAM_REF_BASE))
                st.pre_refs.add(r.get_id())
                st.pre_keep.append(r)
            return mk_value(st, T_, r)
        if isinstance(T_, TOpt):
            isn = z3.Bool(base + '#none')
            return VUnion([(isn, VNone()), (z3.Not(isn), self.sym_value(st, T_.base, base, ref))])
        if isinstance(T_, TUnion):
            tag = z3.Int(base + '#tag')
            st.pc.append(z3.And(tag >= 0, tag < len(T_.alts)))
            return VUnion([(tag == i, self.sym_value(st, a, '%s#u%d' % (base, i), (ref + 20 * (i + 1)) if ref is not None else None))
                           for i, a in enumerate(T_.alts)])
        raise EngineError('cannot make symbolic value of type %r' % (T_,))

    def run_path(self, it, st, fi):
        u = self.unit
        env = {}
        for k, name in enumerate(u.param_names):
            env[name] = self.make_param(it, st, name, u.param_types.get(name), k)
        if fi is not None and fi.node.args.kwarg is not None:
            if u.kwarg_name != fi.node.args.kwarg.arg:
                raise EngineError('contract %s must declare **%s' % (u.name, fi.node.args.kwarg.arg))
            env[u.kwarg_name] = self.make_param(it, st, u.kwarg_name, 'kwargs', 40)
        cls = fi.cls.name if (fi is not None and fi.cls) else u.opts.get('cls')
        st.frames.append(Frame(fi, env, cls))
        if fi is not None and u.opts.get('replay') == 'native':
            # terms that describe the inputs of this unit (read back from a counter-model for the native replay)
            try:
                from nreplay import extract as _nx
                st.ghost['replay_plan'] = _nx.plan(self, it, st, env)
            except Exception:
                st.ghost['replay_plan'] = None
        st.clock = z3.Real('clock0')
        st.pc.append(st.clock > 0)      # time.time() is seconds since the epoch
        st.ghost['names'] = {}
        # the ghost trace starts as an arbitrary list of earlier events
        # preconditions
        st.old = st.snapshot()
        st.entry_clock = st.clock
        # ghost parameters: universally quantified specification-only values (pre-state objects of the declared type)
        for j, c in enumerate(u.of('ghost_param')):
            nm = ast.literal_eval(c.args[0])
            st.ghost['names'][nm] = self.make_param(it, st, 'g_' + nm, ast.literal_eval(c.args[1]), 30 + j)
        st.spec += 1
        try:
            for c in u.of('let'):
                nm = ast.literal_eval(c.args[0])
                v, g = it.guarded(lambda: it.eval(c.args[1]))
                if g:
                    raise EngineError('let(%s): expression needs a definite type (contract line %d)' % (nm, c.line))
                st.ghost['names'][nm] = v
            for c in u.of('requires'):
                for a in c.args:
                    st.cur_line = 'contract:%d' % c.line
                    st.assume(self.assumed(it, a))
            for c in u.of('assume'):
                why = ast.literal_eval(c.args[0])
                self.result.assumptions.add('assume: ' + why)
                for a in c.args[1:]:
                    st.assume(it.gtruth(a))
        finally:
            st.spec -= 1
        self.flush_side(st, 'requires')
        # case splits
        for c in u.of('cases'):
            st.spec += 1
            v = it.eval(c.args[0])
            st.spec -= 1
            vals = ast.literal_eval(c.args[1])
            conds = [it.eq(v, it.lift(x)) for x in vals]
            i = st.branch(conds, 'cases')
            # make the chosen value concrete where the expression is a plain field / parameter
            self.concretize_expr(it, st, c.args[0], vals[i])
        st.trace_wf()
        st.old = st.snapshot()
        st.entry_env = dict(env)
        st.entry_clock = st.clock
        st.pc.append(st.tlen() >= 0)
        # cover: the precondition is satisfiable
        st.oblige(u.name + '.requires_satisfiable', 'cover', z3.BoolVal(True), line=0)
        # body
        outcome = None
        try:
            try:
                if fi is not None:
                    it.exec_block(fi.node.body)
                outcome = Outcome('return', VNone())
            except ReturnEx as r:
                outcome = Outcome('return', r.v)
            except PyRaise as pr:
                outcome = Outcome('raise', pr.exc)
        except (BreakEx, ContinueEx):
            raise EngineError('break/continue outside loop')
        self.result.outcomes[outcome.kind] += 1
        self.check_post(it, st, outcome)

    def concretize_expr(self, it, st, node, val):
        lv = it.lift(val)
        if isinstance(node, ast.Name):
            st.locals[node.id] = lv
        elif isinstance(node, ast.Attribute):
            try:
                st.spec += 1
                obj = it.eval(node.value)
            finally:
                st.spec -= 1
            if isinstance(obj, VRef):
                T_ = self.schema.field_type(obj.cls, it.mangle(node.attr))
                if T_ is not None:
                    field_store(st, 'a:%s.%s' % (obj.cls, it.mangle(node.attr)), T_, obj.t, lv)

    def flush_side(self, st, where):
        for what, c in st.side:
            st.oblige('encoding.%s(%s)' % (what, where), 'side', c)
        st.side = []

    # ------------------------------------------------------------------
    def spec_frame(self, st, extra=None):
        env = dict(st.entry_env) if hasattr(st, 'entry_env') else dict(st.frames[0].locals)
        if extra:
            env.update(extra)
        fr0 = st.frames[0]
        return Frame(fr0.func, env, fr0.cls)

    def check_post(self, it, st, outcome):
        u = self.unit
        st.frames.append(self.spec_frame(st))
        st.spec += 1
        try:
            if outcome.kind == 'raise':
                exc = outcome.value
                matched = False
                for c in u.of('raises'):
                    names = ast.literal_eval(c.args[0])
                    if isinstance(names, str):
                        names = [names]
                    if not any(exc_isinstance(exc.cls, n) for n in names):
                        continue
                    matched = True
                    label = ast.literal_eval(c.kw['label']) if 'label' in c.kw else u.name + '.raises'
                    props = ast.literal_eval(c.kw['props']) if 'props' in c.kw else None
                    if 'when' in c.kw:
                        st.heap_stack.append(st.old)
                        try:
                            w = it.gtruth(c.kw['when'])
                        finally:
                            st.heap_stack.pop()
                        st.oblige(label + '.when', 'post', w, line='%s->%s' % (st.cur_line, exc.cls), props=props, info={'exc': exc.cls})
                    else:
                        st.oblige(label + '.allowed', 'post', z3.BoolVal(True), line='%s->%s' % (st.cur_line, exc.cls), props=props)
                    if 'post' in c.kw:
                        st.ghost['exc'] = exc
                        g = it.gtruth(c.kw['post'])
                        st.oblige(label + '.post', 'post', g, line='%s->%s' % (st.cur_line, exc.cls), props=props, info={'exc': exc.cls})
                if not matched:
                    st.oblige(u.name + '.no_exception', 'noexc', z3.BoolVal(False), line='%s->%s' % (st.cur_line, exc.cls),
                              info={'exc': exc.cls, 'args': [repr(a) for a in exc.args]})
            else:
                st.ghost['result'] = outcome.value
                line = st.cur_line
                for c in u.of('ensures'):
                    if len(c.args) >= 2 and isinstance(c.args[0], ast.Constant) and isinstance(c.args[0].value, str):
                        label = c.args[0].value
                        exprs = c.args[1:]
                    else:
                        label = u.name + '.ensures@%d' % c.line
                        exprs = c.args
                    props = ast.literal_eval(c.kw['props']) if 'props' in c.kw else None
                    for k, e in enumerate(exprs):
                        st.cur_line = line
                        is_lemma = isinstance(e, ast.Call) and isinstance(e.func, ast.Name) and e.func.id == 'lemma'
                        g = it.gtruth(e.args[0] if is_lemma else e)
                        lab = label if len(exprs) == 1 else '%s/%d' % (label, k + 1)
                        self.flush_side(st, lab)
                        st.oblige(lab, 'post', g, line='ret@%s' % line, props=props, info={'clause_line': c.line})
                        if is_lemma:
                            # assert, then assume: later obligations of this path may use the proved fact
                            st.pc.append(g)
                # exact raises: on normal return the `when` condition must be false
                for c in u.of('raises'):
                    if 'when' in c.kw and ('exact' not in c.kw or ast.literal_eval(c.kw['exact'])):
                        st.heap_stack.append(st.old)
                        try:
                            w = it.gtruth(c.kw['when'])
                        finally:
                            st.heap_stack.pop()
                        label = ast.literal_eval(c.kw['label']) if 'label' in c.kw else u.name + '.raises'
                        props = ast.literal_eval(c.kw['props']) if 'props' in c.kw else None
                        st.oblige(label + '.must_raise', 'post', z3.Not(w), line='ret@%s' % line, props=props)
                self.check_modifies(it, st)
        finally:
            st.spec -= 1
            st.frames.pop()

    def check_modifies(self, it, st):
        """frame condition of the unit itself: only if a modifies clause is given"""
        u = self.unit
        mods = u.of('modifies')
        used = any(self.fi is not None and self.fi.qual in x.strs('bycontract') for x in self.units)
        if not mods and not used:
            return
        allowed = self.modifies_targets(it, st, mods) if mods else {}
        if allowed is None:
            return
        if self.fi is not None and self.fi.name == '__init__':
            selfv = st.entry_env[self.fi.params()[0]]
            for attr, T_ in (self.schema.classes.get(selfv.cls) or {}).items():
                for suf in self.slot_suffixes(T_):
                    nm = 'a:%s.%s%s' % (selfv.cls, attr, suf)
                    if not _is_star(allowed.get(nm)):
                        allowed.setdefault(nm, []).append(selfv.t)
        for name, arr in st.H.items():
            old = st.old.get(name, st.H0.get(name))
            if old is None or arr.get_id() == old.get_id() or name.startswith('G:'):
                continue
            if name.startswith('T:') and allowed.get('@events') == '*':
                continue
            tgt = allowed.get(name)
            if isinstance(tgt, str) and tgt == '*':
                continue
            expect = old
            for r in (tgt or []):
                expect = z3.Store(expect, r, z3.Select(arr, r))
            # objects allocated during the call are not part of the frame
            r = z3.Int('fr!r')
            goal = z3.ForAll([r], z3.Implies(z3.And(r < FRESH_REF_BASE), z3.Select(arr, r) == z3.Select(expect, r)))
            st.oblige(u.name + '.frame(%s)' % name, 'post', goal)

    def modifies_targets(self, it, st, clauses):
        """-> {array name: '*' | [refs]} ; None means everything"""
        allowed = {}

        def add(name, ref):
            if isinstance(ref, str) and ref == '*':
                allowed[name] = '*'
            elif not _is_star(allowed.get(name)):
                allowed.setdefault(name, []).append(ref)
        for c in clauses:
            for a in c.args:
                if isinstance(a, ast.Constant) and a.value == 'everything':
                    return None
                if isinstance(a, ast.Name) and a.id == 'trace':
                    allowed['@events'] = '*'
                    continue
                if isinstance(a, ast.Attribute):
                    st.heap_stack.append(st.old)
                    try:
                        obj = it.eval(a.value)
                    finally:
                        st.heap_stack.pop()
                    attr = it.mangle(a.attr)
                    if isinstance(obj, VRef):
                        T_ = self.schema.field_type(obj.cls, attr)
                        if T_ is None:
                            raise EngineError('modifies: unknown field %s.%s' % (obj.cls, attr))
                        for suf in self.slot_suffixes(T_):
                            add('a:%s.%s%s' % (obj.cls, attr, suf), obj.t)
                        continue
                if isinstance(a, ast.Call) and isinstance(a.func, ast.Name) and a.func.id in ('elems', 'table', 'keys'):
                    st.heap_stack.append(st.old)
                    try:
                        obj = it.concretize(it.eval(a.args[0]))
                    finally:
                        st.heap_stack.pop()
                    if a.func.id == 'elems' and isinstance(obj, VList):
                        for nm in ('LEN', 'EL', 'ER', 'EX', 'KIND'):
                            add(nm, obj.t)
                        continue
                    if a.func.id == 'table' and isinstance(obj, VTable):
                        for nm in ('DOM', 'VAL'):
                            add(nm, obj.t)
                        continue
                    if a.func.id == 'keys' and isinstance(obj, VRef):
                        for kn in a.args[1:]:
                            k = ast.literal_eval(kn)
                            T_ = self.schema.key_type(obj.cls, k)
                            for suf in self.slot_suffixes(T_):
                                add('k:%s%s' % (k, suf), obj.t)
                            add('k:%s#has' % k, obj.t)
                        continue
                if isinstance(a, ast.Call) and isinstance(a.func, ast.Name) and a.func.id == 'arrays':
                    for kn in a.args:
                        add(ast.literal_eval(kn), '*')
                    continue
                raise EngineError('unsupported modifies target: ' + ast.unparse(a))
        return allowed

    def slot_suffixes(self, T_):
        if isinstance(T_, TUnion):
            out = ['#tag']
            for i, a in enumerate(T_.alts):
                if not isinstance(a, TNone):
                    out += ['#u%d%s' % (i, s) for s in self.slot_suffixes(a)]
            return out
        if isinstance(T_, TOpt) and not T_.single:
            return ['#none'] + self.slot_suffixes(T_.base)
        return ['']

    # ------------------------------------------------------------------
    # calls to repository functions
    # ------------------------------------------------------------------
    def call_policy(self, fi):
        u = self.unit
        q = fi.qual
        if q in u.strs('opaque'):
            return 'opaque'
        if q in u.strs('inline'):
            return 'inline'
        if q in u.strs('bycontract'):
            return 'contract'
        return 'inline'

    def call_repo_function(self, it, fi, args, kwargs):
        st = it.st
        pol = self.call_policy(fi)
        if st.spec:
            # pure getters may be used in specifications: evaluate the real body in spec mode
            if fi.kind == 'getter' or fi.qual in self.unit.strs('pure'):
                return self.spec_inline(it, fi, args, kwargs)
            raise EngineError('call of %s in spec mode (line %s)' % (fi.qual, st.cur_line))
        if pol == 'opaque':
            self.result.opaque.add(fi.key)
            return self.opaque_call(it, fi, args, kwargs)
        if pol == 'contract':
            # bounded stand-in variants are units of their own, never the contract of the function at a call site
            cands = [x for x in self.units_by_key.get(fi.key, []) if not x.opts.get('bounded')]
            if not cands:
                raise EngineError('bycontract(%s): no contract unit found' % fi.qual)
            self.result.by_contract.add(fi.key)
            return self.apply_contract(it, fi, cands, args, kwargs)
        self.result.inlined.add(fi.key)
        if fi.key not in [f['function'] for f in self.result.fingerprints]:
            self.result.fingerprints.append(self.repo.fingerprint(fi))
            self.result.dropped[fi.key] = dropped_nodes(fi)
        return it.inline(fi, args, kwargs)

    def spec_inline(self, it, fi, args, kwargs):
        """evaluate a pure repository getter in spec mode: straight-line body of assignments and a return"""
        st = it.st
        if fi.key not in [f['function'] for f in self.result.fingerprints]:
            self.result.fingerprints.append(self.repo.fingerprint(fi))
        env = it.bind_args(fi, args, kwargs)
        st.frames.append(Frame(fi, env, fi.cls.name if fi.cls else None))
        try:
            return self.spec_body(it, fi.node.body)
        finally:
            st.frames.pop()

    def spec_body(self, it, stmts):
        st = it.st
        for i, s in enumerate(stmts):
            if isinstance(s, ast.Expr) and isinstance(s.value, ast.Constant):
                continue
            if isinstance(s, ast.Assign) and len(s.targets) == 1 and isinstance(s.targets[0], ast.Name):
                st.locals[s.targets[0].id] = it.eval(s.value)
                continue
            if isinstance(s, ast.AugAssign) and isinstance(s.target, ast.Name):
                st.locals[s.target.id] = it.binop(s.op, it.eval(s.target), it.eval(s.value))
                continue
            if isinstance(s, ast.Return):
                return it.eval(s.value) if s.value is not None else VNone()
            if isinstance(s, ast.If):
                c = it.gtruth(s.test)
                cs = z3.simplify(c)
                rest = stmts[i + 1:]
                if z3.is_true(cs):
                    return self.spec_body(it, s.body + rest)
                if z3.is_false(cs):
                    return self.spec_body(it, s.orelse + rest)
                saved = dict(st.locals)
                a = self.spec_body(it, s.body + rest)
                st.frames[-1].locals = dict(saved)
                b = self.spec_body(it, s.orelse + rest)
                st.frames[-1].locals = saved
                return it.ite(c, a, b)
            raise EngineError('statement %s not allowed in a spec function (line %s)' % (type(s).__name__, s.lineno))
        return VNone()

    def call_spec_func(self, it, name, args, kwargs):
        st = it.st
        sf = self.spec_funcs[name]
        names = [a.arg for a in sf.node.args.args]
        env = dict(zip(names, args))
        env.update(kwargs)
        defaults = sf.node.args.defaults
        for n, d in zip(names[len(names) - len(defaults):], defaults):
            if n not in env:
                env[n] = it.lift(ast.literal_eval(d))
        if len(env) != len(names):
            raise EngineError('spec function %s: arity mismatch' % name)
        fr0 = st.frames[0]
        st.frames.append(Frame(fr0.func, env, fr0.cls))
        try:
            return self.spec_body(it, sf.node.body)
        finally:
            st.frames.pop()

    # ----- opaque call: an event in the trace, everything else havocked
    def opaque_call(self, it, fi, args, kwargs):
        st = it.st
        fn = self.fn_const(fi.qual)
        ev0 = self.emit_event(it, st, fn, args, kwargs)
        self.run_callout_checks(it, st, ev0)
        for c in self.unit.of('opaque_raises'):
            if ast.literal_eval(c.args[0]) == fi.qual:
                excs = [ast.literal_eval(a) for a in c.args[1:]]
                k = st.branch([z3.BoolVal(True)] * (len(excs) + 1), 'opaque_raises')
                if k > 0:
                    raise PyRaise(VExc(excs[k - 1], ()))
        eff = [ast.literal_eval(c.args[0]) for c in self.unit.of('effects')]
        if eff and eff[0] == 'everything':
            self.havoc_everything(st, keep_trace=True)
        else:
            self.result.assumptions.add('opaque callees (%s) do not modify the state of the object under verification; re-entrancy through them is not modelled in this unit' % fi.qual)
        T_ = None
        for uu in self.units_by_key.get(fi.key, []):
            for c in uu.of('returns'):
                T_ = parse_type(ast.literal_eval(c.args[0]))
        ev = VRef(z3.simplify(st.tlen() - 1), 'Event')
        t_ = st.fresh('tafter', z3.RealSort())
        st.pc.append(t_ >= st.clock)
        st.clock = t_
        result = self.fresh_any(st) if T_ is None else self.sym_value(st, T_, 'ret!%d' % next(st.fresh_counter))
        self.apply_callout_assumes(it, st, fn, result, ev)
        return result

    def fresh_arr(self, st, base, sort):
        c = st.fresh(base, sort)
        st.ghost.setdefault('created_arrays', []).append(c)
        return c

    def fresh_any(self, st):
        base = 'any!%d' % next(st.fresh_counter)
        return self.sym_value(st, self.T_ANY, base)

    def havoc_trace(self, st):
        """an unknown number of events is appended to the ghost trace; recorded events are immutable"""
        L0 = st.tlen()
        for name in list(st.H):
            if name.startswith('T:') and name != 'T:len':
                arr = st.H[name]
                new = self.fresh_arr(st, 'tr!' + name, arr.sort())
                st.H[name] = st.merged(name, arr, new, L0)
        Ln = st.fresh('tlen', z3.IntSort())
        st.pc.append(Ln >= L0)
        st.set_tlen(Ln)

    def havoc_everything(self, st, keep_trace=True):
        for name in list(st.H):
            if name.startswith('T:'):
                continue
            arr = st.H[name]
            st.H[name] = self.fresh_arr(st, 'hv!' + name, arr.sort())
        self.havoc_trace(st)
        st.havoc_alloc()
        st.ghost['havoc_all'] = True

    # ----- contract application
    def apply_contract(self, it, fi, cands, args, kwargs):
        st = it.st
        env = it.bind_args(fi, args, kwargs)
        if len(cands) > 1:
            kwv = [v for v in env.values() if isinstance(v, VKwargs)]
            if kwv:
                keys = set(kwv[0].d)
                def kwnames(x):
                    s_ = set()
                    for c in x.of('kwargs'):
                        s_.update(ast.literal_eval(a_) for a_ in c.args)
                        s_.update(c.kw)
                    return s_
                cands = [x for x in cands if kwnames(x) == keys]
            if len(cands) > 1:
                # select by the declared parameter types
                def fits(x):
                    for pn, tstr in x.param_types.items():
                        if pn not in env or tstr in ('kwargs', 'any'):
                            continue
                        T_ = parse_type(tstr)
                        if isinstance(T_, str):
                            continue
                        v = env[pn]
                        alts = [a_ for c_, a_ in flatten_union(v)] if isinstance(v, VUnion) else [v]
                        if not all(type_accepts(T_, a_) for a_ in alts):
                            return False
                    return True
                cands = [x for x in cands if fits(x)]
            if len(cands) != 1:
                raise Unsupported('cannot select a contract variant for %s at a call site' % fi.key)
        cu = cands[0]
        # evaluate in a frame that sees only the callee's parameters
        cls = fi.cls.name if fi.cls else None
        st.frames.append(Frame(fi, dict(env), cls))
        saved_ghost = st.ghost.get('names')
        st.ghost['names'] = {}
        st.spec += 1
        saved_old = st.old
        saved_entry = getattr(st, 'entry_env', None)
        try:
            st.entry_env = dict(env)
            # old() in the callee's clauses (lets included) is the state at the call
            pre = st.snapshot()
            st.old = pre
            for c in cu.of('let'):
                st.ghost['names'][ast.literal_eval(c.args[0])] = it.eval(c.args[1])
            for c in cu.of('requires'):
                for a in c.args:
                    g = it.gtruth(a)
                    st.oblige('%s.pre(%s)' % (self.unit.name, cu.name), 'pre', g, info={'clause_line': c.line})
            # exceptional exits
            whens = []
            for c in cu.of('raises'):
                if 'when' not in c.kw:
                    raise Unsupported('callee raises clause without when: ' + cu.name)
                w = it.gtruth(c.kw['when'])
                whens.append((c, w))
            st.spec -= 1
            try:
                if whens:
                    conds = [w for _, w in whens] + [z3.Not(z3.Or([w for _, w in whens]))]
                    k = st.branch(conds, 'callee_raises')
                    if k < len(whens):
                        c = whens[k][0]
                        names = ast.literal_eval(c.args[0])
                        if isinstance(names, str):
                            names = [names]
                        raise PyRaise(VExc(names[0], ()))
            finally:
                st.spec += 1
            # normal exit: havoc the frame, assume the postconditions
            mods = cu.of('modifies')
            if mods:
                allowed = self.modifies_targets(it, st, mods)
            else:
                allowed = {}
            if fi.name == '__init__' and allowed is not None:
                selfv = env[fi.params()[0]]
                for attr, T_ in (self.schema.classes.get(selfv.cls) or {}).items():
                    for suf in self.slot_suffixes(T_):
                        allowed.setdefault('a:%s.%s%s' % (selfv.cls, attr, suf), [])
                        if not _is_star(allowed['a:%s.%s%s' % (selfv.cls, attr, suf)]):
                            allowed['a:%s.%s%s' % (selfv.cls, attr, suf)].append(selfv.t)
                            st.harr('a:%s.%s%s' % (selfv.cls, attr, suf), self.slot_sort(st, T_, suf))
            st.spec -= 1
            try:
                if allowed is None:
                    self.havoc_everything(st)
                else:
                    self.havoc_targets(st, allowed)
            finally:
                st.spec += 1
            rt = None
            for c in cu.of('returns'):
                rt = parse_type(ast.literal_eval(c.args[0]))
            if rt is not None and reflike(rt):
                st.spec -= 1
                try:
                    result = mk_value(st, rt, st.new_ref())
                finally:
                    st.spec += 1
            else:
                result = self.sym_value(st, rt, 'ret!%d' % next(st.fresh_counter)) if rt is not None else VNone()
            st.ghost['result'] = result
            for c in cu.of('ensures'):
                if 'export' in c.kw and not ast.literal_eval(c.kw['export']):
                    continue        # proved for the callee, not needed by callers
                exprs = c.args[1:] if (len(c.args) >= 2 and isinstance(c.args[0], ast.Constant) and isinstance(c.args[0].value, str)) else c.args
                for e in exprs:
                    st.pc.append(z3.simplify(self.assumed(it, e)))
            st.side = []
            return result
        finally:
            st.spec -= 1
            st.old = saved_old
            if saved_entry is not None:
                st.entry_env = saved_entry
            st.ghost['names'] = saved_ghost
            st.frames.pop()

    def havoc_targets(self, st, allowed):
        if '@events' in allowed:
            self.havoc_trace(st)
            # objects created by the callee
            nr = st.next_ref_term()
            for name in ('LEN', 'EL', 'ER', 'EX', 'KIND'):
                if name in st.H:
                    arr = st.H[name]
                    new = self.fresh_arr(st, 'hv!' + name, arr.sort())
                    st.H[name] = st.merged(name, arr, new, nr, [])
            st.havoc_alloc()
        for name, tgt in allowed.items():
            if name.startswith('@'):
                continue
            if name not in st.H:
                continue
            arr = st.H[name]
            if isinstance(tgt, str) and tgt == '*':
                st.H[name] = self.fresh_arr(st, 'hv!' + name, arr.sort())
            else:
                for r in tgt:
                    arr = z3.Store(arr, r, self.fresh_arr(st, 'hv!' + name, arr.sort().range()))
                st.H[name] = arr

    # ------------------------------------------------------------------
    # call-outs: calls of opaque callables (bus send, subscriber callbacks, wake-up, timers ...)
    # ------------------------------------------------------------------
    LIST_TAG = 4        # index of the list alternative in T_ANY

    def emit_event(self, it, st, fn_term, args, kwargs):
        """append one event to the ghost trace (arrays indexed by trace position)"""
        pos = st.tlen()
        st.hset('T:fn', z3.IntSort(), pos, fn_term)
        st.hset('T:n', z3.IntSort(), pos, z3.IntVal(len(args)))
        slots = [('a%d' % i, a) for i, a in enumerate(args)] + [('k_' + k, v) for k, v in kwargs.items()]
        for nm, a in slots:
            a = self.event_arg(it, st, a)
            if isinstance(a, VUnion) and any(isinstance(x, (VList, VSeq)) for _, x in flatten_union(a)):
                a = self.event_arg(it, st, it.concretize(a))
            if isinstance(a, (VList, VSeq)):
                # the contents of the list at call time
                if isinstance(a, VSeq):
                    a = it.materialize(a)
                length, inner, kind = list_len(st, a), list_inner(st, a), list_kind(st, a)
                st.hset('T:%s#tag' % nm, z3.IntSort(), pos, z3.IntVal(self.LIST_TAG))
                st.hset('T:%s#len' % nm, z3.IntSort(), pos, length)
                st.hset('T:%s#el' % nm, z3.ArraySort(z3.IntSort(), self.ar.sort), pos, inner)
                st.hset('T:%s#kind' % nm, z3.IntSort(), pos, kind)
                continue
            field_store(st, 'T:' + nm, self.T_ANY, pos, a)
            if isinstance(a, VRef) and a.cls:
                st.hset('T:%s#cls' % nm, z3.IntSort(), pos, z3.IntVal(self.cls_id(a.cls)))
        st.set_tlen(z3.simplify(pos + 1))
        return VRef(pos, 'Event')

    def event_arg(self, it, st, a):
        if isinstance(a, VUnion):
            return VUnion([(c, self.event_arg(it, st, x)) for c, x in flatten_union(a)])
        if isinstance(a, VList):
            if not isinstance(a.elem, TInt):
                return VRef(a.t, None)
            return a
        if isinstance(a, VSeq):
            return a
        if isinstance(a, VBound):
            return VFunc(self.bound_id(st, a))
        if isinstance(a, VEnum):
            return VInt(self.ar.from_index(a.t))
        if isinstance(a, VStr):
            return VSymStr(self.str_id(a.s))
        if isinstance(a, VTuple):
            return VNone()
        if isinstance(a, (VTable, VQueue)):
            return VRef(a.t, None)
        if isinstance(a, (VConst,)):
            if isinstance(a.obj, (list, tuple)):
                return it.make_list([it.lift(x) for x in a.obj])
            return VNone()
        return a

    def run_callout_checks(self, it, st, ev):
        """call-out assertions of the unit: evaluated in the state at the moment control leaves the code under verification"""
        u = self.unit
        checks = u.of('callout_check')
        if not checks:
            return
        env = {}
        for fr in st.frames:
            env.update({k_: v_ for k_, v_ in fr.locals.items() if v_ is not None})
        # the parameters of the function under contract keep their meaning inside inlined callees (self is the unit's self)
        for k_ in self.unit.param_names:
            if k_ in st.frames[0].locals and st.frames[0].locals[k_] is not None:
                env[k_] = st.frames[0].locals[k_]
        st.frames.append(self.spec_frame(st, env))
        st.frames[-1].locals['ev'] = ev
        st.spec += 1
        try:
            for c in checks:
                if 'within' in c.kw:
                    w = ast.literal_eval(c.kw['within'])
                    if not any(fr.func is not None and fr.func.qual == w for fr in st.frames[:-1]):
                        continue
                label = ast.literal_eval(c.args[0])
                props = ast.literal_eval(c.kw['props']) if 'props' in c.kw else None
                for e in c.args[1:]:
                    g = it.gtruth(e)
                    self.flush_side(st, label)
                    st.oblige(label, 'callout', g, props=props)
        finally:
            st.spec -= 1
            st.frames.pop()

    def event_seq(self, st, slot, pos):
        """the list argument `slot` of the event at `pos` as a functional sequence"""
        H = st.cur_heap()
        length = st.hget_in(H, 'T:%s#len' % slot, z3.IntSort(), pos)
        inner = st.hget_in(H, 'T:%s#el' % slot, z3.ArraySort(z3.IntSort(), self.ar.sort), pos)
        kind = st.hget_in(H, 'T:%s#kind' % slot, z3.IntSort(), pos)
        return VSeq(length, lambda i, inner=inner: VInt(z3.Select(inner, i)), INT, kind, inner)

    def callout(self, it, f, args, kwargs, node):
        st = it.st
        if st.spec:
            # pure functions may appear in specifications
            if f.T is not None and f.T.pure:
                return self.pure_app(it, f, args)
            raise EngineError('call-out in spec mode (line %s)' % st.cur_line)
        u = self.unit
        if f.T is not None and f.T.pure:
            self.result.assumptions.add('callables declared pure (address predicates, seed/key algorithms) are deterministic functions of their arguments and have no effect on the stack')
            return self.pure_app(it, f, args)
        ev = self.emit_event(it, st, f.t, args, kwargs)
        self.run_callout_checks(it, st, ev)
        eff = [ast.literal_eval(c.args[0]) for c in u.of('effects')]
        if eff and eff[0] == 'everything':
            self.havoc_everything(st)
        else:
            self.result.assumptions.add('call-outs (bus send, callbacks, wake-up) do not modify the state of the object under verification')
        T_ = f.T
        if T_ is not None and T_.pure:
            return self.pure_app(it, f, args)
        if T_ is None or T_.ret is None:
            result = self.fresh_any(st)
        else:
            result = self.sym_value(st, T_.ret, 'cb!%d' % next(st.fresh_counter))
        # real time passes while the callee runs
        t_ = st.fresh('tafter', z3.RealSort())
        st.pc.append(t_ >= st.clock)
        st.clock = t_
        # ghost: the value the call-out returned (trace[k].ret)
        try:
            field_store(st, 'T:ret', self.T_ANY, ev.t, self.event_arg(it, st, result))
        except EngineError:
            pass
        self.apply_callout_assumes(it, st, f.t, result, ev)
        return result

    def apply_callout_assumes(self, it, st, ft, result, ev):
        """assumed contracts of externals: callout_assume("why", expr over `ret` / `ev`, on=<callable expression>)"""
        u = self.unit
        cas = u.of('callout_assume')
        if cas:
            env = {}
            for fr in st.frames:
                env.update({k_: v_ for k_, v_ in fr.locals.items() if v_ is not None})
            env['ret'] = result
            env['ev'] = ev
            st.frames.append(self.spec_frame(st, env))
            st.spec += 1
            try:
                for c in cas:
                    if 'on' in c.kw:
                        target = it.eval(c.kw['on'])
                        tt = target.t if isinstance(target, VFunc) else (self.bound_id(st, target) if isinstance(target, VBound) else None)
                        if tt is None or z3.simplify(tt).get_id() != z3.simplify(ft).get_id():
                            continue
                    self.result.assumptions.add('assumed contract of an external callable: ' + ast.literal_eval(c.args[0]))
                    for e in c.args[1:]:
                        st.assume(self.assumed(it, e))
            finally:
                st.spec -= 1
                st.frames.pop()

    def pure_app(self, it, f, args):
        ts = []
        for a in args:
            a = it.concretize(a, (VInt, VBool)) if it.st.spec else it.concretize(a)
            if isinstance(a, (VInt, VBool)):
                ts.append(self.ar.to_index(it.to_int(a)))
            elif it.st.spec and isinstance(a, VNone):
                # undefined application in a specification: definedness guard false (the enclosing connective decides)
                it.st.defined.append(z3.BoolVal(False))
                ts.append(z3.IntVal(0))
            else:
                raise Unsupported('pure callable with non-int argument')
        fn = self.ufun('app%d' % len(ts), len(ts) + 1)
        t = fn(f.t, *ts)
        T_ = f.T.ret if f.T is not None else INT
        if isinstance(T_, TInt) or T_ is None:
            return VInt(self.ar.from_index(t))
        if isinstance(T_, TBool):
            return VBool(t != 0)
        raise Unsupported('pure callable result type %r' % (T_,))

    # ------------------------------------------------------------------
    # loops
    # ------------------------------------------------------------------
    def loop_ordinal(self, fi, node):
        key = fi.key
        if key not in self.loop_ordinals:
            d = {}
            n = 0
            for x in ast.walk(fi.node):
                pass
            # source order
            loops = [x for x in ast.walk(fi.node) if isinstance(x, (ast.While, ast.For))]
            loops.sort(key=lambda x: (x.lineno, x.col_offset))
            for i, x in enumerate(loops):
                d[id(x)] = i + 1
            self.loop_ordinals[key] = d
        return self.loop_ordinals[key][id(node)]

    def exec_loop(self, it, node):
        st = it.st
        fi = st.frames[-1].func
        od = self.loop_ordinal(fi, node)
        qual = None if fi is self.fi else fi.qual
        u = self.unit
        invs = u.loop_clauses(qual, od, 'invariant')
        if invs:
            return self.loop_cut(it, node, od, qual, invs)
        bound = DEFAULT_UNROLL
        for c, rest in u.loop_clauses(qual, od, 'unroll'):
            bound = ast.literal_eval(rest[0])
        return self.loop_unroll(it, node, bound, od)

    # iteration protocol -------------------------------------------------
    def iter_init(self, it, node):
        """returns (kind, data) for a For loop"""
        st = it.st
        v = it.concretize(it.eval(node.iter))
        if isinstance(v, VConst) and isinstance(v.obj, (list, tuple, dict)):
            return ('const', [it.lift(x) for x in v.obj])
        if isinstance(v, VTuple):
            return ('const', list(v.items))
        if isinstance(v, VRange):
            return ('range', v)
        if isinstance(v, (VList, VSeq)):
            return ('list', v)
        if isinstance(v, VEnumerate):
            s = v.seq
            if isinstance(s, VConst):
                return ('const', [VTuple([it.vint(i), it.lift(x)]) for i, x in enumerate(s.obj)])
            return ('enum', s)
        raise Unsupported('iteration over %r (line %s)' % (v, node.lineno))

    def iter_has(self, it, kind, data, i):
        st = it.st
        if kind == 'range':
            return z3.simplify(it.idx(data.lo) + i < it.idx(data.hi))
        if kind in ('list', 'enum'):
            return z3.simplify(i < list_len(st, data))
        raise EngineError('iter_has')

    def iter_elem(self, it, kind, data, i):
        st = it.st
        if kind == 'range':
            return it.from_idx(z3.simplify(it.idx(data.lo) + i))
        if kind == 'list':
            return list_get(st, data, i)
        if kind == 'enum':
            return VTuple([it.from_idx(i), list_get(st, data, i)])
        raise EngineError('iter_elem')

    def loop_unroll(self, it, node, bound, od):
        st = it.st
        is_for = isinstance(node, ast.For)
        if is_for:
            kind, data = self.iter_init(it, node)
        count = 0
        broke = False
        while True:
            if is_for:
                if kind == 'const':
                    if count >= len(data):
                        break
                    elem = data[count]
                else:
                    i = z3.IntVal(count)
                    has = self.iter_has(it, kind, data, i)
                    if count >= bound:
                        st.oblige('%s.unwind(loop %d, %d iterations)' % (self.unit.name, od, bound), 'unwind', z3.Not(has), line=node.lineno)
                        st.assume(z3.Not(has))
                        break
                    if not st.branch_bool(has, 'for'):
                        break
                    elem = self.iter_elem(it, kind, data, i)
                it.assign(node.target, elem)
            else:
                c = it.gtruth(node.test)
                if count >= bound:
                    st.oblige('%s.unwind(loop %d, %d iterations)' % (self.unit.name, od, bound), 'unwind', z3.Not(c), line=node.lineno)
                    st.assume(z3.Not(c))
                    break
                if not st.branch_bool(c, 'while'):
                    break
            count += 1
            try:
                it.exec_block(node.body)
            except BreakEx:
                broke = True
                break
            except ContinueEx:
                pass
        if not broke:
            it.exec_block(node.orelse)

    # cut-point loops ----------------------------------------------------
    def loop_cut(self, it, node, od, qual, invs):
        st = it.st
        u = self.unit
        is_for = isinstance(node, ast.For)
        ivar = '_i%d' % od
        if is_for:
            kind, data = self.iter_init(it, node)
            if kind == 'const':
                raise EngineError('invariant given for a constant-trip loop (loop %d)' % od)
            st.locals[ivar] = it.from_idx(z3.IntVal(0))
            if kind in ('list', 'enum') and isinstance(data, VList):
                st.locals['_l%d' % od] = data
            if kind == 'range':
                # the bounds of range() are evaluated once
                data = VRange(data.lo, data.hi)
        entry_heap = st.snapshot()
        entry_locals = dict(st.locals)
        st.loop_entry.append((entry_heap, entry_locals))
        pushed_head = False
        try:
            self.assert_invariants(it, invs, od, 'inv_init', node)
            decs = u.loop_clauses(qual, od, 'decreases')
            # havoc everything the body may change
            self.havoc_loop(it, node, od)
            if is_for:
                iv = st.fresh('iter', z3.IntSort())
                st.locals[ivar] = it.from_idx(iv)
                st.pc.append(iv >= 0)
                # the loop variable keeps its value from the previous iteration (if any)
            self.assume_invariants(it, invs)
            st.loop_head = getattr(st, 'loop_head', [])
            st.loop_head.append((st.snapshot(), dict(st.locals), st.clock))
            pushed_head = True
            # loop condition
            if is_for:
                i = it.idx(st.locals[ivar])
                has = self.iter_has(it, kind, data, i)
                enter = st.branch_bool(has, 'for')
            else:
                enter = st.branch_bool(it.gtruth(node.test), 'while')
            if not enter:
                it.exec_block(node.orelse)
                return
            variant0 = None
            if decs:
                st.frames.append(self.spec_frame(st, dict(st.locals)))
                st.spec += 1
                try:
                    variant0 = [it.eval(e) for c, rest in decs for e in rest]
                finally:
                    st.spec -= 1
                    st.frames.pop()
            if is_for:
                elem = self.iter_elem(it, kind, data, i)
                st.locals[ivar] = it.from_idx(z3.simplify(i + 1))
                it.assign(node.target, elem)
            bes = u.loop_clauses(qual, od, 'body_ensures')
            try:
                it.exec_block(node.body)
            except BreakEx:
                # the iteration is complete (its postcondition is due); execution continues after the loop
                if bes:
                    self.assert_invariants(it, bes, od, 'body_post', node)
                return
            except ContinueEx:
                pass
            # per-iteration postconditions first: their lemma() facts may support the invariant proofs
            if bes:
                self.assert_invariants(it, bes, od, 'body_post', node)
            self.assert_invariants(it, invs, od, 'inv_keep', node)
            if decs:
                st.frames.append(self.spec_frame(st, dict(st.locals)))
                st.spec += 1
                try:
                    variant1 = [it.eval(e) for c, rest in decs for e in rest]
                finally:
                    st.spec -= 1
                    st.frames.pop()
                for a, b in zip(variant0, variant1):
                    ta, tb = it.idx(a), it.idx(b)
                    st.oblige('%s.variant(loop %d)' % (u.name, od), 'variant', z3.And(tb < ta, ta >= 0), line=node.lineno)
            raise PathEnd()
        finally:
            st.loop_entry.pop()
            if pushed_head:
                st.loop_head.pop()

    def assert_invariants(self, it, invs, od, kind, node):
        st = it.st
        st.frames.append(self.spec_frame(st, dict(st.locals)))
        st.spec += 1
        try:
            for c, rest in invs:
                label = None
                for e in rest:
                    if isinstance(e, ast.Constant) and isinstance(e.value, str):
                        label = e.value
                        continue
                    is_lemma = isinstance(e, ast.Call) and isinstance(e.func, ast.Name) and e.func.id == 'lemma'
                    g = it.gtruth(e.args[0] if is_lemma else e)
                    self.flush_side(st, 'invariant')
                    st.oblige('%s.%s(loop %d)' % (label or self.unit.name, 'inv', od), kind, g, line=node.lineno, info={'clause_line': c.line, 'expr': ast.unparse(e)[:200]})
                    if is_lemma:
                        # assert, then assume: later obligations of this path may use the proved fact
                        st.pc.append(g)
        finally:
            st.spec -= 1
            st.frames.pop()

    def assumed(self, it, node):
        """evaluate a clause that is going to be assumed (keys_forall facts get registered for eager instantiation)"""
        st = it.st
        st.assuming += 1
        saved = st.conj_ctx
        st.conj_ctx = True
        try:
            return it.gtruth(node)
        finally:
            st.assuming -= 1
            st.conj_ctx = saved

    def instantiate_kf(self, it, tb, key):
        """eager instances of assumed keys_forall facts for the key of a table look-up (code mode)"""
        st = it.st
        kid = z3.simplify(key).get_id()
        for reg in st.kf_assumed:
            if reg['tb'].t.get_id() != tb.t.get_id() or kid in reg['done']:
                continue
            reg['done'].add(kid)
            lam = reg['lam']
            names = [a.arg for a in lam.args.args]
            heap = reg['heap']
            st.heap_stack.append(heap)
            saved = (st.old, st.loop_entry, getattr(st, 'loop_head', []), st.ghost.get('names'))
            st.old, st.loop_entry, st.loop_head = reg['old'], reg['entry'], reg['head']
            st.ghost['names'] = reg['names']
            st.spec += 1
            try:
                env = dict(reg['env'])
                env[names[0]] = it.from_idx(key)
                if len(names) > 1:
                    env[names[1]] = mk_value(st, tb.val, z3.Select(table_val(st, tb), key))
                st.frames.append(Frame(reg['func'], env, reg['cls']))
                try:
                    body = it.gtruth(lam.body)
                    dom = z3.Select(table_dom(st, tb), key)
                finally:
                    st.frames.pop()
            except EngineError:
                continue
            finally:
                st.spec -= 1
                st.heap_stack.pop()
                st.old, st.loop_entry, st.loop_head = saved[0], saved[1], saved[2]
                st.ghost['names'] = saved[3]
            st.pc.append(z3.simplify(z3.Implies(dom, body)))

    def assume_invariants(self, it, invs):
        st = it.st
        st.frames.append(self.spec_frame(st, dict(st.locals)))
        st.spec += 1
        try:
            for c, rest in invs:
                for e in rest:
                    if isinstance(e, ast.Constant) and isinstance(e.value, str):
                        continue
                    if isinstance(e, ast.Call) and isinstance(e.func, ast.Name) and e.func.id == 'lemma':
                        e = e.args[0]
                    st.assume(self.assumed(it, e))
            st.side = []
        finally:
            st.spec -= 1
            st.frames.pop()

    def array_sort(self, st, name):
        if name in st.H:
            return st.H[name].sort().range()
        if name == 'LEN' or name == 'KIND':
            return z3.IntSort()
        if name == 'EL':
            return z3.ArraySort(z3.IntSort(), self.ar.sort)
        if name in ('ER', 'EX'):
            return z3.ArraySort(z3.IntSort(), z3.IntSort())
        if name == 'G:own':
            return z3.IntSort()
        if name == 'DOM':
            return DOM_SORT
        if name == 'VAL':
            return VAL_SORT
        if name.endswith('#has') or name.endswith('#tag') or name.endswith('#none') or name.endswith('#cls'):
            return z3.IntSort()
        return None

    def havoc_like(self, it, st, cur, n):
        base = 'lv!%s!%d' % (n, next(st.fresh_counter))
        if isinstance(cur, VInt):
            return VInt(self.ar.const(base))
        if isinstance(cur, VBool):
            return VBool(z3.Bool(base))
        if isinstance(cur, VReal):
            return VReal(z3.Real(base))
        if isinstance(cur, VRef):
            r = z3.Int(base)
            st.pc.append(z3.And(r > 0))
            st.ghost.setdefault('lv_refs', []).append(r)
            return VRef(r, cur.cls)
        if isinstance(cur, VList):
            r = z3.Int(base)
            st.pc.append(z3.And(r > 0))
            st.ghost.setdefault('lv_refs', []).append(r)
            return VList(r, cur.elem)
        if isinstance(cur, VEnum):
            return VEnum(cur.cls, z3.Int(base))
        if isinstance(cur, VFunc):
            return VFunc(z3.Int(base), cur.T)
        if isinstance(cur, VTuple):
            return VTuple([self.havoc_like(it, st, x, n) for x in cur.items])
        if isinstance(cur, VUnion):
            alts = flatten_union(cur)
            tag = z3.Int(base + '#tag')
            st.pc.append(z3.And(tag >= 0, tag < len(alts)))
            return VUnion([(tag == i, self.havoc_like(it, st, a, n)) for i, (c, a) in enumerate(alts)])
        if isinstance(cur, (VNone, VStr, VConst, VClass, VModule, VBuiltin)):
            # NB: a local that changes *type* inside the loop is not supported
            return cur
        raise Unsupported('havoc of local %s: %r' % (n, cur))

    # ------------------------------------------------------------------
    # spec builtins with unevaluated arguments
    # ------------------------------------------------------------------
    def freeze(self, st, v, node):
        """value of an expression evaluated in an earlier heap (old / at_entry / at_head): lists become snapshots of
        their contents in that heap, object references keep identity only (no field access through them)"""
        if isinstance(v, VUnion):
            return VUnion([(c, self.freeze(st, a, node)) for c, a in flatten_union(v)])
        if isinstance(v, VList):
            return seq_of(st, v)
        if isinstance(v, VRef) and v.cls != 'Event':
            return VRef(v.t, v.cls, old=True)
        if isinstance(v, VTuple):
            return VTuple([self.freeze(st, x, node) for x in v.items])
        if isinstance(v, (VTable, VQueue)):
            raise EngineError('%s yields a container reference from an earlier state; wrap the whole expression' % ast.unparse(node))
        return v

    def spec_special(self, it, name, node):
        st = it.st
        if name == 'old':
            st.heap_stack.append(st.old)
            saved_clock = st.clock
            st.clock = getattr(st, 'entry_clock', st.clock)
            try:
                return self.freeze(st, it.eval(node.args[0]), node)
            finally:
                st.heap_stack.pop()
                st.clock = saved_clock
        if name == 'at_entry':
            if not st.loop_entry:
                raise EngineError('at_entry() outside a loop invariant')
            heap, locs = st.loop_entry[-1]
            st.heap_stack.append(heap)
            st.frames.append(Frame(st.frames[-1].func, dict(st.frames[-1].locals, **locs), st.frames[-1].cls))
            try:
                return self.freeze(st, it.eval(node.args[0]), node)
            finally:
                st.frames.pop()
                st.heap_stack.pop()
        if name == 'at_head':
            if not getattr(st, 'loop_head', None):
                raise EngineError('at_head() outside a loop body postcondition')
            heap, locs, clk = st.loop_head[-1]
            st.heap_stack.append(heap)
            st.frames.append(Frame(st.frames[-1].func, dict(st.frames[-1].locals, **locs), st.frames[-1].cls))
            saved_clock = st.clock
            st.clock = clk
            try:
                return self.freeze(st, it.eval(node.args[0]), node)
            finally:
                st.clock = saved_clock
                st.frames.pop()
                st.heap_stack.pop()
        if name in ('implies', 'iff', 'ite', 'forall', 'exists', 'count'):
            saved_ctx = st.conj_ctx
            st.conj_ctx = False
            try:
                return self.spec_special2(it, name, node)
            finally:
                st.conj_ctx = saved_ctx
        if name in ('keys_forall', 'unchanged'):
            return self.spec_special2(it, name, node)
        raise EngineError('spec special ' + name)

    def spec_special2(self, it, name, node):
        st = it.st
        if name == 'count':
            return self.spec_count(it, node)
        if name == 'implies':
            a = it.gtruth(node.args[0])
            if z3.is_false(z3.simplify(a)):
                # the consequent is not evaluated when the antecedent is literally false (it may mention names that do not
                # exist in this state, e.g. in a call-out assertion that is about another call-out)
                return VBool(z3.BoolVal(True))
            b = it.gtruth(node.args[1])
            return VBool(z3.Implies(a, b))
        if name == 'iff':
            return VBool(it.gtruth(node.args[0]) == it.gtruth(node.args[1]))
        if name == 'ite':
            c = it.gtruth(node.args[0])
            return it.spec_ite(c, node.args[1], node.args[2])
        if name in ('forall', 'exists'):
            lam = node.args[0]
            if not isinstance(lam, ast.Lambda):
                raise EngineError('%s needs a lambda' % name)
            names = [a.arg for a in lam.args.args]
            vs = [z3.Int('q!%s!%d' % (n, next(st.fresh_counter))) for n in names]
            env = dict(st.locals)
            for n, v in zip(names, vs):
                env[n] = it.from_idx(v) if self.ar.mode == 'int' else VInt(z3.Int2BV(v, self.ar.width))
            guards = []
            if len(node.args) >= 3:
                lo = it.idx(it.eval(node.args[1]))
                hi = it.idx(it.eval(node.args[2]))
                for v in vs:
                    guards.append(z3.And(v >= lo, v < hi))
                # small concrete ranges are expanded
                clo, chi = z3.simplify(lo), z3.simplify(hi)
                if len(vs) == 1 and z3.is_int_value(clo) and z3.is_int_value(chi) and chi.as_long() - clo.as_long() <= 80:
                    parts = []
                    for k in range(clo.as_long(), chi.as_long()):
                        env2 = dict(env)
                        env2[names[0]] = it.vint(k)
                        st.frames.append(Frame(st.frames[-1].func, env2, st.frames[-1].cls))
                        try:
                            parts.append(it.gtruth(lam.body))
                        finally:
                            st.frames.pop()
                    if name == 'forall':
                        return VBool(z3.simplify(z3.And(parts)) if parts else z3.BoolVal(True))
                    return VBool(z3.simplify(z3.Or(parts)) if parts else z3.BoolVal(False))
            st.frames.append(Frame(st.frames[-1].func, env, st.frames[-1].cls))
            st.bound_vars.extend(vs)
            try:
                body = it.gtruth(lam.body)
            finally:
                st.frames.pop()
                del st.bound_vars[-len(vs):]
            if name == 'forall':
                f = z3.ForAll(vs, z3.Implies(z3.And(guards), body) if guards else body)
            else:
                f = z3.Exists(vs, z3.And(guards + [body]))
            return VBool(f)
        if name == 'keys_forall':
            tb = it.concretize(it.eval(node.args[0]))
            lam = node.args[1]
            names = [a.arg for a in lam.args.args]
            kv = z3.Int('q!%s!%d' % (names[0], next(st.fresh_counter)))
            env = dict(st.locals)
            env[names[0]] = it.from_idx(kv)
            if len(names) > 1:
                env[names[1]] = mk_value(st, tb.val, z3.Select(table_val(st, tb), kv))
                if st.cur_heap() is st.H:
                    st.wf_array('VAL', 'ref2')
            if st.assuming and st.conj_ctx and not st.bound_vars and not st.heap_stack:
                st.kf_assumed.append({'tb': tb, 'lam': lam, 'env': dict(st.locals), 'heap': st.snapshot(),
                                      'func': st.frames[-1].func, 'cls': st.frames[-1].cls, 'done': set(),
                                      'old': st.old, 'entry': list(st.loop_entry), 'head': list(getattr(st, 'loop_head', [])),
                                      'names': dict(st.ghost.get('names', {}))})
            st.frames.append(Frame(st.frames[-1].func, env, st.frames[-1].cls))
            st.bound_vars.append(kv)
            saved_ctx = st.conj_ctx
            st.conj_ctx = False
            try:
                body = it.gtruth(lam.body)
            finally:
                st.frames.pop()
                st.bound_vars.pop()
                st.conj_ctx = saved_ctx
            return VBool(z3.ForAll([kv], z3.Implies(z3.Select(table_dom(st, tb), kv), body)))
        if name == 'unchanged':
            conj = []
            for a in node.args:
                cur = it.eval(a)
                st.heap_stack.append(st.old)
                try:
                    old = it.eval(a)
                finally:
                    st.heap_stack.pop()
                conj.append(self.same_value(it, cur, old))
            return VBool(z3.simplify(z3.And(conj)))
        raise EngineError('spec special ' + name)

    def spec_count(self, it, node):
        """count(lambda j: P(j), lo, hi) = #{ j in [lo, hi) : P(j) } as an axiomatised function of hi"""
        st = it.st
        lam = node.args[0]
        nm = lam.args.args[0].arg
        lo = z3.simplify(it.idx(it.eval(node.args[1])))
        hi = z3.simplify(it.idx(it.eval(node.args[2])))
        cv = z3.Int('cq!v')

        def body_at(t):
            env = dict(st.locals)
            env[nm] = it.from_idx(t)
            st.frames.append(Frame(st.frames[-1].func, env, st.frames[-1].cls))
            st.bound_vars.append(t)
            try:
                return z3.simplify(it.gtruth(lam.body))
            finally:
                st.frames.pop()
                st.bound_vars.pop()
        b = body_at(cv)
        key = ('count', b.get_id(), lo.get_id())
        cache = st.ghost.setdefault('counts', {})
        if key not in cache:
            F = z3.Function('count!%d' % next(st.fresh_counter), z3.IntSort(), z3.IntSort())
            cache[key] = (F, b)
            a_, b_ = z3.Int('cq!a'), z3.Int('cq!b')
            st.pc.append(F(lo) == 0)
            # bounds and monotonicity (consequences of the definition by induction; trusted lemma of the count theory)
            st.pc.append(z3.ForAll([a_], z3.Implies(a_ >= lo, z3.And(F(a_) >= 0, F(a_) <= a_ - lo)), patterns=[F(a_)]))
            st.pc.append(z3.ForAll([a_, b_], z3.Implies(z3.And(lo <= a_, a_ <= b_), z3.And(F(a_) <= F(b_), F(b_) - F(a_) <= b_ - a_)),
                                   patterns=[z3.MultiPattern(F(a_), F(b_))]))
            self.result.assumptions.add('count(): bounds and monotonicity lemmas of the counting function are axioms (they follow from its recursive definition by induction)')
        F, b = cache[key]
        # the defining step, instantiated where it is used: F(hi) = F(hi-1) + [P(hi-1)] and F(hi+1) = F(hi) + [P(hi)]
        if not _mentions(hi, st.bound_vars) and not _mentions(lo, st.bound_vars):
            for t in (hi, z3.simplify(hi + 1)):
                bn = z3.substitute(b, (cv, z3.simplify(t - 1)))
                st.pc_fact(z3.Implies(t > lo, F(t) == F(z3.simplify(t - 1)) + z3.If(bn, 1, 0)))
        return it.from_idx(F(hi))

    def same_value(self, it, a, b):
        st = it.st
        if isinstance(a, VRef) and isinstance(b, VRef) and a.cls and self.schema.classes.get(a.cls):
            # all declared fields (shallow)
            conj = [a.t == b.t]
            return z3.And(conj)
        if isinstance(a, VTable) and isinstance(b, VTable):
            return z3.And(a.t == b.t)
        return it.eq(a, b)

    # ------------------------------------------------------------------
    # builtins
    # ------------------------------------------------------------------
    def call_builtin(self, it, f, args, kwargs, node):
        from .builtins import call_builtin
        return call_builtin(self, it, f, args, kwargs, node)


# ---------------------------------------------------------------------------
# syntactic scan of a loop body: what may be modified
# ---------------------------------------------------------------------------
LIST_MUTATORS = {'append', 'extend', 'insert', 'remove', 'pop', 'clear', 'sort', 'reverse'}
QUEUE_MUTATORS = {'put', 'get', 'get_nowait', 'put_nowait'}


class LoopScan:
    def __init__(self, eng, it, fi, seen=None):
        self.eng = eng
        self.it = it
        self.fi = fi
        self.names = set()
        self.arrays = []        # (array name, ref term | '*')
        self.everything = False
        self.seen = seen if seen is not None else set()
        self.depth = 0
        self.assigned_from = {}
        self.trace = False

    def target(self, t):
        if isinstance(t, ast.Name):
            if self.depth == 0:
                self.names.add(t.id)
        elif isinstance(t, (ast.Tuple, ast.List)):
            for e in t.elts:
                self.target(e)
        elif isinstance(t, ast.Attribute):
            self.attr_store(t)
        elif isinstance(t, ast.Subscript):
            self.sub_store(t)

    def mangle(self, attr):
        if attr.startswith('__') and not attr.endswith('__') and self.fi.cls:
            return '_' + self.fi.cls.name.split('.')[-1].lstrip('_') + attr
        return attr

    def try_eval(self, node):
        """value of a loop-invariant simple expression (a local name), else None"""
        if self.depth > 0:
            return None
        if isinstance(node, ast.Name) and node.id in self.it.st.locals:
            return ('name', node.id)
        return None

    def attr_store(self, t):
        attr = self.mangle(t.attr)
        sch = self.eng.schema
        for c in sch.classes_with_attr(attr):
            T_ = sch.field_type(c, attr)
            ci = self.eng.repo.find_class(c)
            for suf in self.eng.slot_suffixes(T_):
                self.arrays.append(('a:%s.%s%s' % (c, attr, suf), '*'))
        # property setters: scan the setter body
        for ci in self.eng.repo.classes.values():
            if attr in ci.setters:
                self.callee(ci.setters[attr])

    def sub_store(self, t):
        # x[k] = v : list element, table entry or record key
        if isinstance(t.slice, ast.Constant) and isinstance(t.slice.value, str):
            k = t.slice.value
            self.key_arrays(k, self.later_ref(t.value))
            return
        ref = self.later_ref(t.value)
        for nm in ('EL', 'ER', 'EX', 'DOM', 'VAL'):
            self.arrays.append((nm, ref))

    def key_arrays(self, k, ref):
        self.arrays.append(('G:own', '*'))
        sch = self.eng.schema
        types = [v for (c, kk), v in sch.keys.items() if kk == k]
        sufs = set()
        for T_ in types:
            sufs.update(self.eng.slot_suffixes(T_))
        for suf in sufs or ['']:
            self.arrays.append(('k:%s%s' % (k, suf), ref))
        self.arrays.append(('k:%s#has' % k, ref))

    def later_ref(self, node):
        """placeholders resolved after the scan: ('later', name) when the name is not assigned in the loop;
        ('expr', node) for attribute chains rooted at such a name whose attributes are not stored in the loop"""
        v = self.try_eval(node)
        if v is not None:
            return ('later', v[1])
        if isinstance(node, ast.Name) and self.depth == 0:
            return ('later', node.id)
        if self.depth == 0:
            n = node
            attrs = []
            while isinstance(n, ast.Attribute):
                attrs.append(n.attr)
                n = n.value
            if attrs and isinstance(n, ast.Name) and n.id in self.it.st.locals:
                return ('expr', node, n.id, tuple(attrs))
        return '*'

    @staticmethod
    def allocates(e):
        """the expression always yields a freshly allocated list"""
        if isinstance(e, ast.Subscript) and isinstance(e.slice, ast.Slice):
            return True
        if isinstance(e, (ast.List, ast.ListComp)):
            return True
        if isinstance(e, ast.Call):
            if isinstance(e.func, ast.Name) and e.func.id in ('list', 'bytes', 'bytearray'):
                return True
            if isinstance(e.func, ast.Attribute) and e.func.attr in ('copy', 'to_bytes', 'tolist'):
                return True
        if isinstance(e, ast.BinOp) and isinstance(e.op, ast.Mult) and (isinstance(e.left, ast.List) or isinstance(e.right, ast.List)):
            return True
        return False

    def stmt(self, s):
        for node in ast.walk(s):
            if isinstance(node, (ast.Assign,)):
                for t in node.targets:
                    self.target(t)
                    if isinstance(t, ast.Name) and self.depth == 0:
                        self.assigned_from.setdefault(t.id, []).append(node.value)
            elif isinstance(node, (ast.AugAssign, ast.AnnAssign)):
                self.target(node.target)
            elif isinstance(node, ast.For):
                self.target(node.target)
            elif isinstance(node, ast.Delete):
                for t in node.targets:
                    if isinstance(t, ast.Subscript):
                        if isinstance(t.slice, ast.Constant) and isinstance(t.slice.value, str):
                            self.arrays.append(('k:%s#has' % t.slice.value, self.later_ref(t.value)))
                        else:
                            self.arrays.append(('DOM', self.later_ref(t.value)))
                    elif isinstance(t, ast.Name) and self.depth == 0:
                        self.names.add(t.id)
            elif isinstance(node, ast.ExceptHandler):
                if node.name and self.depth == 0:
                    self.names.add(node.name)
            elif isinstance(node, ast.Dict):
                for k in node.keys:
                    if isinstance(k, ast.Constant) and isinstance(k.value, str):
                        self.key_arrays(k.value, None)
            elif isinstance(node, (ast.List, ast.ListComp)):
                for nm in ('LEN', 'EL', 'ER', 'EX', 'KIND'):
                    self.arrays.append((nm, None))
            elif isinstance(node, ast.Subscript) and isinstance(node.slice, ast.Slice) and isinstance(node.ctx, ast.Load):
                for nm in ('LEN', 'EL', 'ER', 'EX', 'KIND'):
                    self.arrays.append((nm, None))
            elif isinstance(node, ast.BinOp) and isinstance(node.op, (ast.Mult, ast.Add)):
                # may build a list
                for nm in ('LEN', 'EL', 'ER', 'EX', 'KIND'):
                    self.arrays.append((nm, None))
            elif isinstance(node, ast.Call):
                self.call(node)

    def call(self, node):
        f = node.func
        if isinstance(f, ast.Attribute):
            if isinstance(f.value, ast.Name) and f.value.id == 'logger':
                return
            if f.attr in LIST_MUTATORS:
                ref = self.later_ref(f.value)
                for nm in ('LEN', 'EL', 'ER', 'EX'):
                    self.arrays.append((nm, ref))
                return
            if f.attr in QUEUE_MUTATORS:
                for nm in ('LEN', 'EL', 'ER', 'EX'):
                    self.arrays.append((nm, '*'))
            if f.attr in ('copy', 'to_bytes', 'tolist'):
                for nm in ('LEN', 'EL', 'ER', 'EX', 'KIND'):
                    self.arrays.append((nm, None))
            # method of a repository class?
            attr = self.mangle(f.attr)
            cands = [ci.methods[attr] for ci in self.eng.repo.classes.values() if attr in ci.methods]
            if isinstance(f.value, ast.Name) and f.value.id == 'self' and self.fi.cls and attr in self.fi.cls.methods:
                cands = [self.fi.cls.methods[attr]]
            for c in cands:
                self.callee(c)
            # a call through a field holding a callable (or any unknown attribute call) is a call-out
            if not cands and f.attr not in LIST_MUTATORS and f.attr not in ('get', 'copy', 'to_bytes', 'from_bytes', 'time', 'format', 'keys', 'items', 'qsize'):
                self.callout(node)
        elif isinstance(f, ast.Name):
            if f.id in ('print', 'len', 'min', 'max', 'int', 'range', 'enumerate', 'callable', 'isinstance', 'hex', 'str', 'bool', 'abs'):
                return
            if f.id in ('list', 'bytes', 'bytearray'):
                for nm in ('LEN', 'EL', 'ER', 'EX', 'KIND'):
                    self.arrays.append((nm, None))
                return
            ci = self.eng.repo.find_class(f.id)
            if ci is not None:
                if '__init__' in ci.methods:
                    self.callee(ci.methods['__init__'], fresh_self=True)
                return
            if f.id in self.it.st.locals:
                self.callout(node)
        elif isinstance(f, ast.Subscript):
            self.callout(node)

    def callout(self, node=None):
        self.trace = True
        for nm in ('LEN', 'EL', 'ER', 'EX', 'KIND'):
            self.arrays.append((nm, None))
        eff = [ast.literal_eval(c.args[0]) for c in self.eng.unit.of('effects')]
        if eff and eff[0] == 'everything':
            self.everything = True

    def callee(self, fi, fresh_self=False):
        if fi.key in self.seen:
            return
        self.seen.add(fi.key)
        pol = self.eng.call_policy(fi)
        if pol == 'opaque':
            eff = [ast.literal_eval(c.args[0]) for c in self.eng.unit.of('effects')]
            if eff and eff[0] == 'everything':
                self.everything = True
            else:
                self.callout()
            return
        if pol == 'contract':
            cu = self.eng.units_by_key.get(fi.key, [None])[0]
            if cu is None or not cu.of('modifies'):
                if cu is not None and not cu.of('modifies'):
                    return
                self.everything = True
                return
            for c in cu.of('modifies'):
                for a in c.args:
                    if isinstance(a, ast.Name) and a.id == 'trace':
                        self.callout()
                    elif isinstance(a, ast.Attribute):
                        sub = LoopScan(self.eng, self.it, fi, self.seen)
                        sub.depth = 1
                        sub.attr_store(a)
                        self.arrays += sub.arrays
                    else:
                        self.everything = True
            return
        sub = LoopScan(self.eng, self.it, fi, self.seen)
        sub.depth = self.depth + 1
        for s in fi.node.body:
            sub.stmt(s)
        self.arrays += [(n, ('*' if isinstance(r, tuple) else r)) for n, r in sub.arrays]
        self.everything = self.everything or sub.everything
        self.trace = self.trace or sub.trace


def _resolve_later(scan, it):
    out = []
    stored_attrs = set()
    for name, ref in scan.arrays:
        if name.startswith('a:'):
            stored_attrs.add(name[2:].split('#')[0].rsplit('.', 1)[1])
    for name, ref in scan.arrays:
        if isinstance(ref, tuple) and ref[0] == 'expr':
            _, node, root, attrs = ref
            ok = root not in scan.names and not any(scan.mangle(a) in stored_attrs or a in stored_attrs for a in attrs)
            v = None
            if ok:
                st = it.st
                st.spec += 1
                try:
                    v = it.eval(node)
                except Exception:
                    v = None
                finally:
                    st.spec -= 1
            if isinstance(v, (VList, VRef, VTable)):
                out.append((name, v.t))
            else:
                out.append((name, '*'))
            continue
        if isinstance(ref, tuple) and ref[0] == 'later':
            nm = ref[1]
            v = it.st.locals.get(nm)
            if nm not in scan.names and isinstance(v, (VList, VRef, VTable)):
                out.append((name, v.t))
            elif nm in scan.names and scan.assigned_from.get(nm) and all(LoopScan.allocates(e) for e in scan.assigned_from[nm]) \
                    and not any(isinstance(x, ast.For) and any(isinstance(t, ast.Name) and t.id == nm for t in ast.walk(x.target)) for x in ast.walk(scan.root)):
                out.append((name, None))      # the name always refers to a list allocated in this iteration
            else:
                out.append((name, '*'))
        else:
            out.append((name, ref))
    scan.arrays = out




def _havoc_loop(self, it, node, od):
    st = it.st
    fi = st.frames[-1].func
    scan = LoopScan(self, it, fi)
    scan.root = node
    for s in node.body:
        scan.stmt(s)
    if isinstance(node, ast.For):
        scan.target(node.target)
    _resolve_later(scan, it)
    for n in scan.names:
        cur = st.locals.get(n)
        if cur is None:
            continue
        st.locals[n] = self.havoc_like(it, st, cur, n)
    nr_entry = st.next_ref_term()
    if scan.everything:
        self.havoc_everything(st)
        return
    if scan.trace:
        self.havoc_trace(st)
    touched = {}
    for name, ref in scan.arrays:
        if isinstance(ref, str) and ref == '*':
            touched[name] = '*'
        elif not _is_star(touched.get(name)):
            touched.setdefault(name, [])
            if ref is not None and all(ref.get_id() != r.get_id() for r in touched[name]):
                touched[name].append(ref)
    for name, tg in touched.items():
        sort = self.array_sort(st, name)
        if sort is None:
            if name in st.H:
                sort = st.H[name].sort().range()
            else:
                sort = self.guess_sort(st, name)
                if sort is None:
                    continue
        arr = st.harr(name, sort)
        if isinstance(tg, str) and tg == '*':
            st.H[name] = self.fresh_arr(st, 'lp!' + name, arr.sort())
        else:
            new = self.fresh_arr(st, 'lp!' + name, arr.sort())
            st.H[name] = st.merged(name, arr, new, nr_entry, tg)
    st.havoc_alloc()
    # objects held by havocked locals exist: they were allocated before the current allocation pointer
    for r_ in st.ghost.pop('lv_refs', []):
        st.pc.append(r_ < st.next_ref)


def _guess_sort(self, st, name):
    """sort of a heap array that does not exist yet, from the declared shapes"""
    base = name
    suffix = ''
    if '#' in name:
        base, suffix = name.split('#', 1)
        suffix = '#' + suffix
    T_ = None
    if base.startswith('a:'):
        c, a = base[2:].rsplit('.', 1)
        T_ = self.schema.field_type(c, a)
    elif base.startswith('k:'):
        k = base[2:]
        cands = [v for (c, kk), v in self.schema.keys.items() if kk == k]
        T_ = cands[0] if cands else None
    if T_ is None:
        return None
    return self.slot_sort(st, T_, suffix)


def _slot_sort(self, st, T_, suffix):
    if suffix in ('#tag', '#none', '#has', '#cls'):
        return z3.IntSort()
    if isinstance(T_, TUnion) and suffix.startswith('#u'):
        rest = suffix[2:]
        digits = ''
        while rest and rest[0].isdigit():
            digits += rest[0]
            rest = rest[1:]
        return self.slot_sort(st, T_.alts[int(digits)], rest)
    if isinstance(T_, TOpt) and not T_.single:
        return self.slot_sort(st, T_.base, suffix)
    return sort_of(st, slot_kind(T_))


Engine.havoc_loop = _havoc_loop
Engine.guess_sort = _guess_sort
Engine.slot_sort = _slot_sort
