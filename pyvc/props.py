"""per-property metadata: evidence texts, residual clauses (out of scope for per-call contracts), manifest notes"""

COMMON_ASSUME = [
    'floats (time stamps, deadlines) are treated as mathematical reals; time.time() is positive and monotone within a call',
    'CPython executes single container operations atomically (GIL); threads are not modelled in per-call contracts',
]

PROPS = {
    'C01': {
        'explanation': 'J1939-21 transport: send_pgn accept/refuse and session record, TP.CM/TP.DT handlers (session open, reassembly '
                       'buffer = old buffer ++ data octets, completion delivers exactly once the first `size` octets and deletes the '
                       'session in the same call), background pass (k-th TP.DT = payload[7k:7k+7] padded with 0xFF, state advanced '
                       'before the frame is handed to the bus), dispatch in notify; class invariant inv21 preserved by every unit.',
        'out_of_scope': ['2-4 stacks on one bus with simultaneous transfers and per-receiver delivery latencies (whole-bus schedules)',
                         'composition "originator stack -> bus -> responder stack" end to end; it is covered only through the per-frame '
                         'contracts of both roles and the shared frame layout specs'],
        'design_ref': '6 (C01/C02), appendix A',
    },
    'C02': {
        'explanation': 'J1939-22 (FD) transport: send_pgn for > 60 octets (refused exactly when all 8 / 4 session numbers of the kind are '
                       'taken and then without effect; otherwise the lowest free number, a new session that replaces none in flight, '
                       'payload cut into 60-octet segments, RTS / BAM announce), FD.TP.CM and FD.TP.DT handlers (session open, in-order '
                       'reassembly buffer = old buffer ++ data octets, cut to the announced size, delivery exactly once on a matching '
                       'end-of-message status of a completely reassembled message, byte-identical to the buffer, session deleted in the '
                       'same call), background pass (k-th FD.TP.DT = stored segment k under segment number k+1, EOM status behind the '
                       'last), dispatch in notify; class invariant Inv22 (session tables, session-number pools, pairwise distinct '
                       'numbers) preserved by every unit.',
        'out_of_scope': ['2-3 stacks on one bus with 1..8 + 0..4 simultaneous sessions and per-receiver delivery latencies (whole-bus schedules)',
                         'composition "originator stack -> bus -> responder stack" end to end; covered through the per-frame contracts of both '
                         'roles, the shared frame layout specs and the frame conditions (a handler touches only the session of its own key)'],
        'bounded': ['numpy chunking (np.array/np.split/np.reshape/tolist) is an ASSUMED contract (pyvc/numpy_model.py); bounded native '
                    'cross-check bounded/fd_roundtrip.py: two real J1939_22 objects back to back, every payload length 61..400 (quick) / '
                    '61..4000 and 4000..20000 step 61 (thorough), windows 1/3/255 and BAM - BOUNDED, never counted as proved'],
        'bounded_cmds': {'quick': [['bounded/fd_roundtrip.py', '61', '400', '1']],
                         'thorough': [['bounded/fd_roundtrip.py', '61', '4000', '1'], ['bounded/fd_roundtrip.py', '4000', '20000', '61']]},
        'design_ref': '6 (C01/C02), appendix A',
    },
    'C11': {
        'explanation': 'FD multi-PG: send_pgn for <= 60 octets (immediate: one frame with exactly this group; with a time limit: first '
                       'collection buffer for (format, counter, source, destination) with room - fill accounting 4 + length per group, '
                       '<= 64 in total as class invariant, earliest deadline kept, job thread woken whenever a buffer is created, gets a '
                       'group or is made due; groups for other keys untouched; FBFF to a specific address refused without effect), frame '
                       'assembly (groups back to back with their own header and byte-identical data, legal CAN FD length <= 64, padding = '
                       'TOS-0 header then 0xAA, identifier 0x2500|DA with the most urgent priority), flush by the pass exactly when the '
                       'deadline has passed, unpacking loop (one step on arbitrary octets; round trip: a frame laid out by the builder is '
                       'unpacked into exactly its groups, once each, in order, byte-identical).',
        'out_of_scope': ['"on the bus no later than its time limit plus scheduling latency" in real time (the OS wakes the thread)',
                         'FBFF end to end (the stack does not receive FBFF)'],
        'design_ref': '6 (C11)',
    },
    'C03': {
        'explanation': 'every J1939-21 frame builder against the independent SAE layout functions of specs/ (identifier fields, control '
                       'byte, LE16 size, packet counts, LE24 PGN with PS=0 for PDU1 PGNs, 1-based sequence numbers, 0xFF fill); field '
                       'extraction in the handlers; identifier/PGN codecs (C15 units).',
        'out_of_scope': ['real-time pacing windows (the deadline arithmetic is C09)'],
        'design_ref': '6 (C03)',
    },
    'C04': {
        'explanation': 'local decision tables of address claiming: claim timer (_process_claim_async), contest (_process_addressclaim: '
                       'ignore / win / lose fixed / lose arbitrary, comparison on the 64-bit NAME values), claim frame layout, broadcast '
                       'of claims to every CA (notify), start/stop registration.',
        'out_of_scope': ['settling within bounded time, 250 ms veto windows relative to other CAs start times, 2-4 stacks, delivery '
                         'latencies (bus-level histories)'],
        'design_ref': '6 (C04)',
    },
    'C05': {
        'explanation': 'the three filters: bus listener flags (only extended data frames; exceptions contained), destination filter of '
                       'J1939_21.notify before any protocol handling (reject path: empty trace, nothing modified), per-listener delivery '
                       'rule of _notify_subscribers (exactly the selected listeners, once each, in order), CA/ECU acceptance predicates.',
        'out_of_scope': ['multi-stack bystander histories'],
        'design_ref': '6 (C05)',
    },
    'C06': {
        'explanation': 'J1939-21 deadlines (armed(T) = time()+T for the standard value of the new state), expiry in the background pass '
                       '(receive session: removed, abort reason 3 to the originator unless broadcast; send session waiting for CTS: abort '
                       'reason 3 and removed), wake-up of the job thread whenever a deadline is set, re-acceptance after removal '
                       '(send_pgn refuses only while the key is present), completion test counts octets against the announced size.',
        'out_of_scope': ['virtual time at which both sides are empty, which frame was lost on a real bus'],
        'design_ref': '6 (C06)',
    },
    'C07': {
        'explanation': 'class invariant inv21 established by __init__ and preserved by every handler on every frame (any octets, any '
                       'length 0..8, also on exceptional exits), by send_pgn and by the background pass; the pass raises nothing and '
                       'progresses: afterwards every remaining session has its deadline in the future and the returned wake-up is in '
                       '(now, now+5] and not later than any deadline (no stall, no busy spin); listener contains handler exceptions.',
        'out_of_scope': ['that OS timers fire on time afterwards'],
        'design_ref': '6 (C07), appendix A',
    },
    'C09': {
        'explanation': 'J1939-21 originator: no TP.DT unless the session is in a sending state, a burst never passes the window end of a '
                       'sane grant and then waits for the next CTS, hold CTS only extends the wait (Th), CTS ignored unless waiting; '
                       'BAM: one packet per expired deadline, next deadline >= now + interval (default 50 ms); responder: every CTS '
                       'grants <= RTS limit, <= own maximum, <= packets remaining.',
        'out_of_scope': ['"not more than 200 ms when idle" (needs the OS to run the thread on time)'],
        'design_ref': '6 (C09)',
    },
    'C10': {
        'explanation': 'J1939-21: send_pgn returns False iff a session for the (source, destination) key exists, then without any effect; '
                       'every finished / timed-out / aborted session is deleted by the pass (frame conditions of all handlers: '
                       'receive-side handlers never touch the send table).',
        'out_of_scope': ['"after each history the full batch completes" as a run'],
        'design_ref': '6 (C10)',
    },
    'C13': {
        'explanation': 'state guard and source address of every ControllerApplication send entry point (send_message, send_pgn, '
                       'send_request, _send_address_claimed), class invariant of the CA (operational => holds the announced address), '
                       'losing a contest leaves the operational state in the same call.',
        'out_of_scope': [],
        'design_ref': '6 (C13)',
    },
    'C14': {
        'explanation': 'request encoding (3 octets LE to PGN 0xEA00|DA, priority 6, from the held address or 254), dispatch in notify to '
                       'exactly the CAs that accept the destination, filter / claim answer / callback fan-out in _process_request, '
                       'decoded PGN = requested PGN for all 2^24 values.',
        'out_of_scope': ['requester stack -> bus -> responder stack composition'],
        'design_ref': '6 (C14)',
    },
    'C15': {
        'explanation': 'MessageId, ParameterGroupNumber and Name codecs in bit-vector arithmetic against the J1939-21/-81 bit tables: '
                       'compose, parse, both round trips, PDU1/PDU2 classification, NAME from fields / value / 8 LE octets, reserved bit '
                       'reads 0, constructor range checks; arbitration compares the 64-bit values (contest unit).',
        'out_of_scope': [],
        'design_ref': '6 (C15)',
    },
    'C16': {
        'explanation': 'DTC pack/unpack (both directions, the four wire octets) and lamp encode/decode with round trips for all values '
                       '(bit-vector arithmetic) against the J1939-73 layouts; DM1 payload build (any number of codes, loop invariant; '
                       'priority 7 above 8 octets; exactly one send_pgn(0,0xFE,0xCA)), DM1 parse (lamps and every code, in order), '
                       'build/parse round-trip lemma, dispatch, start_send registration and stop_send removal of that registration, '
                       'DM22 request encoding.',
        'out_of_scope': ['delivery of the payload over a bus by either link layer (C01/C02/C11 by composition)',
                         'that the timer fires each cycle (C12) - composition of the registration with the timer pass'],
        'design_ref': '6 (C16)',
    },
    'C17': {
        'explanation': 'DM14 memory access, per function: value <-> octet conversion of the client (every object of size 1/2/4/8, little '
                       'endian, two-s complement when signed, in order; encode then decode gives the value back), DM14 / DM16 frame layouts '
                       'of the client, DM16 of the server (count octet, exactly the octets the application supplied, 0xFF fill), data taken '
                       'from a DM16 on both sides (exactly data[1:1+count]), server-side extraction of command / pointer / pointer type / '
                       'object count / access level from the first DM14, DM15 proceed / operation-complete layouts, closing DM14 returns '
                       'the server to idle, facade read/write hand exactly the caller-s arguments to the query and are idle afterwards.',
        'out_of_scope': ['whole transactions over two stacks and the J1939-21 transport (composition of these contracts with C01); '
                         'hand-over timing between DM15 proceed, DM16 data and DM15 operation-complete over two threads and two stacks '
                         '(three defects of this kind were found natively and repaired - findings/f13_dm14_transactions.py - but no '
                         'contract decides the hand-over as a whole)',
                         'Dm14Query.read/write (blocking queue waits) and DM14Server.respond/_wait_for_data are not under contract'],
        'design_ref': '6 (C17)',
    },
    'C18': {
        'explanation': 'key verification (accepted exactly when key == algorithm(seed)), seeds never 0x0000 / 0xFFFF, the facade consults the '
                       'proceed callback and notifies the application only while the key returned matches the seed sent (call-out '
                       'assertion on every path of _listen_for_dm14), seed-first / key-frame transitions of the server, error DM15 '
                       'layout (status operation failed, 24-bit error indicator little endian, EDCP extension), client side: an error / '
                       'busy DM15 ends the blocking wait and queues exactly one exception when it carries an error indicator, recovery: '
                       'reset_query returns the server to its initial state, the facade is IDLE again on every exit of read/write '
                       '(also exceptional ones).',
        'out_of_scope': ['the text of the exception (string formatting is uninterpreted)', 'the timeout of the blocking wait (queue.get)',
                         'histories of up to 6 operations on live objects (each step is covered by the per-call contracts; their '
                         'composition is not mechanised)'],
        'design_ref': '6 (C18)',
    },
    'C19': {
        'explanation': 'the guard in front of the server state machine: a DM14 from another source address, or for another pointer, or while '
                       'the application reports busy, is answered with exactly one DM15 operation failed (error 2 = busy unless the '
                       'application set one, EDCP 7) addressed to the requester that sent it, and leaves state, requester, pointer, '
                       'length and data of the running transaction untouched; the DM15 builder addresses its frame to the address '
                       'given; the facade answers busy and calls no application callback while it is itself querying, and ignores '
                       'requests while the application owes an answer.',
        'out_of_scope': ['injection after every bus frame of every transaction shape (whole histories)',
                         'a request for another pointer after a transaction has completed is also answered busy (the pointer is not '
                         'cleared by the closing DM14) - outside the property-s quantifier, noted in DESIGN'],
        'design_ref': '6 (C19)',
    },
    'C12': {
        'explanation': 'add_timer (one new registration due delta after the call, others untouched, thread woken), remove_timer and '
                       'unsubscribe (filter semantics for lists of any length: afterwards no registration with the callback is left, all '
                       'others kept in order), one iteration of the background thread: per visited registration called exactly when due, '
                       'once, with its cookie (no-early), periodic re-arm by whole periods to the first instant >= now (no-drift), '
                       'one-shot removed, no other registration altered / removed / reordered (independence), wake-up not later than any '
                       'visited remaining deadline, sleep only for a positive time ending no later than the computed wake-up.',
        'out_of_scope': ['"no later than delta plus scheduling latency" in real time (the OS wakes the thread when Queue.get times out)',
                         'callbacks that edit the timer list while the pass runs (assumed effect-free here; the snapshot iteration and the '
                         'still-registered checks are verified as code, their multi-thread behaviour is not)'],
        'design_ref': '6 (C12)',
    },
}

LEVEL_TEXT = ('Deductive proof by contract: the real function bodies are re-read from /repo on every run, symbolically executed '
              'path by path (loops by invariant), and every generated obligation (postconditions, class invariants, loop '
              'invariants, call-out assertions, no-exception, encoding side conditions) is discharged by z3 (cvc5 fallback) '
              'for all inputs and all pre-states satisfying the stated preconditions - no bound on values, lengths or iterations.')

LEVEL_NOTE = ('Trusted: the pyvc VC generator and its semantics of the Python subset, z3/cvc5, assumed contracts of externals (bus send, '
              'callbacks, queue, clock), floats as reals, GIL atomicity. Residual (not decided by per-call contracts) clauses are listed '
              'in evidence coverage.out_of_scope. Every assumption used in a run is listed in the evidence file.')
