"""per-property metadata for the evidence files"""
PROPS = {}
