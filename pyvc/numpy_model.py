"""Assumed contract of the four numpy calls J1939_22.send_pgn uses to cut a payload into 60-octet segments
(np.array, np.split, np.reshape, ndarray.tolist).  numpy itself is outside the verified subset (C extension);
this model is an ASSUMPTION, listed in every evidence file that uses it, and cross-checked natively by the *bounded*
differential /verif/bounded/fd_roundtrip.py (stored segments == payload[60i:60i+60] for every length in its range).

    np.array(xs)              1-D array holding the elements of the list xs (snapshot)
    np.split(a, [k])          [a[:k], a[k:]]              (0 <= k <= len(a); always two parts, the second may be empty)
    np.reshape(a, (-1, c))    rows a[c*i : c*i+c], i < len(a)/c ; ValueError unless len(a) is a multiple of c
    a.tolist()                fresh Python list (of fresh lists for a 2-D array) with the same elements as Python ints
"""
import z3

from .core import *
from .heap import *


class VNp(V):
    """immutable numpy array value: 1-D (rows is None) over `seq`, or 2-D rows x cols over the flat `seq`"""
    __slots__ = ('seq', 'rows', 'cols')

    def __init__(self, seq, rows=None, cols=None):
        self.seq = seq
        self.rows = rows
        self.cols = cols


ASSUMPTION = ('numpy chunking (np.array / np.split / np.reshape / tolist) follows the assumed contract of pyvc/numpy_model.py; '
              'bounded native cross-check: bounded/fd_roundtrip.py')


def call_numpy(eng, it, name, args, kwargs):
    st = it.st
    st.assumptions_used.add(ASSUMPTION)
    if st.spec:
        raise Unsupported('numpy in spec mode')
    if name == 'array':
        sq = it.as_seq(args[0])
        if not isinstance(sq.elem, TInt):
            raise Unsupported('np.array of non-int elements')
        # snapshot: later edits of the list do not change the array
        if sq.inner is None:
            sq = it.as_seq(it.materialize(sq))
        return VNp(sq)
    if name == 'split':
        a = args[0]
        if not isinstance(a, VNp) or a.rows is not None:
            raise Unsupported('np.split of %r' % (a,))
        idxs = it.as_seq(args[1])
        n = z3.simplify(idxs.len)
        if not (z3.is_int_value(n) and n.as_long() == 1):
            raise Unsupported('np.split with other than one split index')
        k = it.idx(idxs.get(z3.IntVal(0)))
        ok = z3.And(k >= 0, k <= a.seq.len)
        if not st.valid(ok):
            raise Unsupported('np.split index not provably within the array (line %s)' % st.cur_line)
        return VTuple((VNp(it.slice_seq(a.seq, z3.IntVal(0), k)), VNp(it.slice_seq(a.seq, k, None))))
    if name == 'reshape':
        a = args[0]
        shape = args[1]
        if not isinstance(a, VNp) or a.rows is not None or not isinstance(shape, VTuple) or len(shape.items) != 2:
            raise Unsupported('np.reshape arguments')
        r0 = eng.ar.as_long(it.to_int(shape.items[0]))
        c = eng.ar.as_long(it.to_int(shape.items[1]))
        if r0 != -1 or c is None or c <= 0:
            raise Unsupported('np.reshape shape other than (-1, c)')
        n = a.seq.len
        fits = (n % c == 0)
        if not st.valid(fits):
            if not st.branch_bool(fits, 'reshape'):
                raise PyRaise(VExc('ValueError', (VStr('cannot reshape array'),)))
        return VNp(a.seq, z3.simplify(n / c), c)
    raise Unsupported('numpy.%s' % name)


def np_method(eng, it, a, m, args, kwargs):
    st = it.st
    if m != 'tolist':
        raise Unsupported('ndarray.%s' % m)
    if st.spec:
        raise Unsupported('numpy in spec mode')
    if a.rows is None:
        return it.materialize(VSeq(a.seq.len, a.seq.get, INT, z3.IntVal(KIND_LIST)), KIND_LIST)
    return block_rows(eng, it, a.seq, a.rows, a.cols)


def block_rows(eng, it, sq, rows, c):
    """allocate `rows` fresh lists of c ints each (row i = sq[c*i : c*i+c]) and the fresh outer list holding them"""
    st = it.st
    bound = st.next_ref
    int_ = z3.IntSort()
    el_sort = z3.ArraySort(int_, eng.ar.sort)
    lenA, kindA, elA = st.harr('LEN', int_), st.harr('KIND', int_), st.harr('EL', el_sort)
    nlen = eng.fresh_arr(st, 'np!LEN', lenA.sort())
    nkind = eng.fresh_arr(st, 'np!KIND', kindA.sort())
    nel = eng.fresh_arr(st, 'np!EL', elA.sort())
    st.H['LEN'] = st.merged('LEN', lenA, nlen, bound)
    st.H['KIND'] = st.merged('KIND', kindA, nkind, bound)
    st.H['EL'] = st.merged('EL', elA, nel, bound)
    r, j = z3.Int('q!np_r'), z3.Int('q!np_j')
    inrow = z3.And(r >= bound, r < bound + rows)
    st.pc.append(z3.ForAll([r], z3.Implies(inrow, z3.And(z3.Select(nlen, r) == c, z3.Select(nkind, r) == KIND_LIST))))
    st.bound_vars.append(r)
    st.bound_vars.append(j)
    try:
        src = elem_term(st, VList(None, INT), sq.get(z3.simplify(c * (r - bound) + j)))
    finally:
        st.bound_vars.pop()
        st.bound_vars.pop()
    st.pc.append(z3.ForAll([r, j], z3.Implies(z3.And(inrow, j >= 0, j < c), z3.Select(z3.Select(nel, r), j) == src)))
    st.pc.append(rows >= 0)
    st.next_ref = z3.simplify(bound + rows)
    k = z3.Int('li!%d' % next(st.fresh_counter))
    outer = list_alloc(st, TList(INT), rows, z3.Lambda([k], bound + k), KIND_LIST)
    return outer
