"""builtin functions, methods of built-in types and spec helper functions"""
import ast
import z3

from .core import *
from .heap import *
from .interp import RealOf


def call_builtin(eng, it, f, args, kwargs, node):
    st = it.st
    name = f.name
    if isinstance(name, tuple):
        if name[0] == 'm':
            return call_method(eng, it, name[1], name[2], args, kwargs, node)
        if name[0] == 'unbound':
            return it.call_function(name[1], args, kwargs)
        if name[0] == 'ext':
            T_ = eng.schema.ext_methods[(name[1].cls, name[2])]
            eng.result.assumptions.add('external method %s.%s() returns an arbitrary value of its type and has no effect on the stack' % (name[1].cls, name[2]))
            return eng.sym_value(st, T_, 'ext!%d' % next(st.fresh_counter))
        raise EngineError('builtin %r' % (name,))
    if name.startswith('spec.'):
        return spec_builtin(eng, it, name[5:], args, kwargs)
    if name.startswith('specfn.'):
        return eng.call_spec_func(it, name[7:], args, kwargs)
    if name.startswith('exc.'):
        return VExc(name[4:], tuple(args))
    if name == 'len':
        if isinstance(args[0], VTrace):
            return it.from_idx(st.tlen())
        v = it.concretize(args[0], (VList, VSeq, VConst, VTuple, VKwargs, VQueue))
        if isinstance(v, (VList, VSeq)):
            return it.from_idx(list_len(st, v))
        if isinstance(v, VConst):
            return it.vint(len(v.obj))
        if isinstance(v, VTuple):
            return it.vint(len(v.items))
        if isinstance(v, VKwargs):
            return it.vint(len(v.d))
        if isinstance(v, VQueue):
            return it.from_idx(list_len(st, VList(v.t, v.elem)))
        if isinstance(v, VNone):
            raise it.type_error("object of type 'NoneType' has no len()")
        if isinstance(v, (VInt, VBool, VReal)):
            raise it.type_error("object of type 'int' has no len()")
        raise Unsupported('len of %r (line %s)' % (v, st.cur_line))
    if name in ('min', 'max'):
        vals = [it.concretize(a) for a in args]
        if len(vals) == 1:
            raise Unsupported('min/max of a sequence')
        r = vals[0]
        for v in vals[1:]:
            np_ = it.num_pair(r, v)
            if np_ is None:
                raise it.type_error('min/max of non-numbers')
            c = (np_[2] < np_[1]) if name == 'min' else (np_[2] > np_[1])
            r = it.ite(c, v, r)
        return r
    if name == 'int':
        v = it.concretize(args[0]) if args else it.vint(0)
        if isinstance(v, VInt):
            return v
        if isinstance(v, VBool):
            return VInt(it.to_int(v))
        if isinstance(v, VReal):
            fl = z3.ToInt(v.t)
            t = z3.If(v.t >= 0, fl, -z3.ToInt(-v.t))
            return it.from_idx(z3.simplify(t))
        if isinstance(v, VStr):
            return it.vint(int(v.s, *[ast.literal_eval(str(eng.ar.as_long(a.t))) for a in args[1:]]))
        raise Unsupported('int() of %r' % (v,))
    if name == 'float':
        v = it.concretize(args[0])
        return VReal(it.to_real(v))
    if name == 'bool':
        return VBool(it.truth(args[0]))
    if name == 'abs':
        v = it.concretize(args[0])
        if isinstance(v, VReal):
            return VReal(z3.If(v.t >= 0, v.t, -v.t))
        t = it.to_int(v)
        return VInt(z3.If(t >= 0, t, -t))
    if name == 'range':
        if len(args) == 1:
            return VRange(it.vint(0), args[0])
        if len(args) == 2:
            return VRange(args[0], args[1])
        raise Unsupported('range with step')
    if name == 'enumerate':
        return VEnumerate(it.concretize(args[0]))
    if name in ('list', 'bytes', 'bytearray', 'tuple'):
        kind = {'list': KIND_LIST, 'bytes': KIND_BYTES, 'bytearray': KIND_BYTEARRAY, 'tuple': KIND_LIST}[name]
        if not args:
            return list_alloc(st, INT, 0, None, kind) if not st.spec else VSeq(z3.IntVal(0), lambda i: it.vint(0), INT, z3.IntVal(kind))
        v = it.concretize(args[0])
        if isinstance(v, VTable):
            return table_keys_snapshot(eng, it, v)
        if isinstance(v, VRange):
            lo, hi = eng.ar.as_long(it.to_int(v.lo)), eng.ar.as_long(it.to_int(v.hi))
            if lo is None or hi is None:
                raise Unsupported('list(range(symbolic))')
            return it.make_list([it.vint(k) for k in range(lo, hi)], INT, kind)
        sq = it.as_seq(v)
        sq = VSeq(sq.len, sq.get, sq.elem, z3.IntVal(kind))
        if st.spec:
            return sq
        return it.materialize(sq, kind)
    if name == 'callable':
        v = args[0]
        return VBool(it.map_union(v, lambda x: z3.BoolVal(isinstance(x, (VFunc, VBound, VClass, VLambda, VBuiltin)))))
    if name == 'isinstance':
        v = it.concretize(args[0])
        c = args[1]
        if isinstance(c, VClass):
            if isinstance(v, VRef):
                return VBool(z3.BoolVal(v.cls == c.info.name))
            return VBool(z3.BoolVal(False))
        if isinstance(c, VBuiltin) and c.name in ('int', 'bool', 'list', 'str'):
            m = {'int': (VInt, VBool), 'bool': (VBool,), 'list': (VList,), 'str': (VStr, VSymStr)}[c.name]
            return VBool(z3.BoolVal(isinstance(v, m)))
        raise Unsupported('isinstance with %r' % (c,))
    if name in ('hex', 'str'):
        v = it.concretize(args[0])
        if isinstance(v, VStr):
            return v
        return VSymStr(eng.ufun(name + '_of', 1)(it.opaque_str_of(v)))
    if name == 'int.from_bytes':
        return int_from_bytes(eng, it, args, kwargs)
    if name == 'time.time':
        t = st.fresh('time', z3.RealSort())
        st.pc.append(t >= st.clock)
        st.clock = t
        st.assumptions_used.add('time.time() is monotone within one call; floats treated as reals')
        return VReal(t)
    if name == 'secrets.randbits':
        k = eng.ar.as_long(it.to_int(args[0]))
        t = st.fresh_int('rand')
        st.pc.append(z3.And(t >= eng.ar.val(0), t < eng.ar.val(1 << k)))
        return VInt(t)
    if name in ('sys.platform',):
        return VStr('linux')
    if name.startswith('np.') or name.startswith('numpy.'):
        from .numpy_model import call_numpy
        return call_numpy(eng, it, name.split('.', 1)[1], args, kwargs)
    raise Unsupported('builtin %s (line %s)' % (name, st.cur_line))


def table_keys_snapshot(eng, it, tb):
    """list(d): the keys of an int-keyed dict in an arbitrary order"""
    st = it.st
    if st.spec:
        raise Unsupported('list(table) in spec')
    n = st.fresh('nkeys', z3.IntSort())
    L = list_alloc(st, INT, n, None)
    st.pc.append(n >= 0)
    inner = st.fresh('keys', z3.ArraySort(z3.IntSort(), eng.ar.sort))
    list_set_inner(st, L, inner)
    dom = table_dom(st, tb)
    j, k = z3.Int('ks!j'), z3.Int('ks!k')
    pos = eng.ufun('keypos!%d' % next(st.fresh_counter), 1)
    idx = lambda t: eng.ar.to_index(t)
    # every listed key is in the table; keys are pairwise distinct; every key of the table is listed
    st.pc.append(z3.ForAll([j], z3.Implies(z3.And(j >= 0, j < n), z3.And(z3.Select(dom, idx(z3.Select(inner, j))), pos(idx(z3.Select(inner, j))) == j))))
    st.pc.append(z3.ForAll([k], z3.Implies(z3.Select(dom, k), z3.And(pos(k) >= 0, pos(k) < n, idx(z3.Select(inner, pos(k))) == k))))
    return L


def le_value(eng, it, get, n, signed):
    """little-endian value of n octets (n concrete)"""
    ar = eng.ar
    if n == 0:
        return it.vint(0)
    total = None
    for k in range(n):
        b = it.to_int(get(z3.IntVal(k)))
        term = b if k == 0 else (b * ar.val(1 << (8 * k)) if ar.mode == 'int' else (b << (8 * k)))
        total = term if total is None else total + term
    if signed:
        top = it.to_int(get(z3.IntVal(n - 1)))
        total = z3.If(top >= ar.val(128), total - ar.val(1 << (8 * n)), total)
    return VInt(z3.simplify(total))


def int_from_bytes(eng, it, args, kwargs):
    st = it.st
    data = kwargs.get('bytes', args[0] if args else None)
    order = kwargs.get('byteorder', args[1] if len(args) > 1 else VStr('big'))
    signed = kwargs.get('signed', VBool(z3.BoolVal(False)))
    if not isinstance(order, VStr):
        raise Unsupported('symbolic byteorder')
    data = it.concretize(data)
    if isinstance(data, VNone):
        raise it.type_error('cannot convert NoneType to bytes')
    sq = it.as_seq(data)
    sg = z3.simplify(it.truth(signed))
    n = z3.simplify(sq.len)
    if order.s == 'big':
        src = sq
        sq = VSeq(src.len, lambda i: src.get(z3.simplify(src.len - 1 - i)), src.elem, src.kind)

    def value(k):
        if z3.is_true(sg):
            return le_value(eng, it, sq.get, k, True)
        if z3.is_false(sg):
            return le_value(eng, it, sq.get, k, False)
        return it.ite(sg, le_value(eng, it, sq.get, k, True), le_value(eng, it, sq.get, k, False))
    if not st.spec:
        # octets must be in range(256)
        pass
    if z3.is_int_value(n):
        return value(n.as_long())
    MAXN = 9
    if not st.spec and not st.valid(n <= MAXN):
        raise Unsupported('int.from_bytes of a sequence whose length is not bounded by %d (line %s)' % (MAXN, st.cur_line))
    r = value(MAXN)
    for k in range(MAXN - 1, -1, -1):
        r = it.ite(n == k, value(k), r)
    return r


def call_method(eng, it, recv, m, args, kwargs, node):
    st = it.st
    ar = eng.ar
    if isinstance(recv, VKwargs):
        if m == 'get':
            k = args[0]
            if not isinstance(k, VStr):
                raise Unsupported('kwargs.get with symbolic key')
            if k.s in recv.d:
                return recv.d[k.s]
            return args[1] if len(args) > 1 else VNone()
        raise Unsupported('kwargs.' + m)
    if isinstance(recv, VInt):
        if m == 'to_bytes':
            length = kwargs.get('length', args[0] if args else it.vint(1))
            order = kwargs.get('byteorder', args[1] if len(args) > 1 else VStr('big'))
            n = ar.as_long(it.to_int(it.concretize(length)))
            if n is None:
                raise Unsupported('to_bytes with symbolic length; use cases() (line %s)' % st.cur_line)
            if not isinstance(order, VStr):
                raise Unsupported('symbolic byteorder')
            x = recv.t
            ok = z3.And(x >= ar.val(0), x < ar.val(1 << (8 * n))) if n > 0 else (x == ar.val(0))
            if st.spec:
                pass
            elif not st.valid(ok):
                if not st.branch_bool(ok, 'to_bytes'):
                    raise PyRaise(VExc('OverflowError', (VStr('int too big to convert'),)))
            items = []
            for k in range(n):
                if ar.mode == 'int':
                    items.append(VInt(z3.simplify((x / (1 << (8 * k))) % 256)))
                else:
                    items.append(VInt(z3.simplify((x >> (8 * k)) & 0xFF)))
            if order.s == 'big':
                items.reverse()
            return it.make_list(items, INT, KIND_BYTES)
        raise Unsupported('int.' + m)
    if type(recv).__name__ == 'VNp':
        from .numpy_model import np_method
        return np_method(eng, it, recv, m, args, kwargs)
    if isinstance(recv, (VList, VSeq)):
        return list_method(eng, it, recv, m, args, kwargs)
    if isinstance(recv, VRef):
        return record_method(eng, it, recv, m, args, kwargs)
    if isinstance(recv, VQueue):
        return queue_method(eng, it, recv, m, args, kwargs)
    if isinstance(recv, VTable):
        if m == 'get':
            k = it.idx(args[0])
            has = table_has(st, recv, k)
            dflt = args[1] if len(args) > 1 else VNone()
            return it.ite(has, table_get(st, recv, k), dflt)
        if m == 'keys':
            return recv
        raise Unsupported('dict.' + m)
    if isinstance(recv, (VStr, VSymStr)):
        if m == 'format':
            return VSymStr(eng.ufun('format%d' % len(args), len(args) + 1)(it.str_term(recv), *[it.opaque_str_of(a) for a in args]))
        raise Unsupported('str.' + m)
    if isinstance(recv, VConst):
        if m == 'get' and isinstance(recv.obj, dict):
            k = it.concretize(args[0])
            dflt = args[1] if len(args) > 1 else VNone()
            has = it.contains(recv, k)
            hs = z3.simplify(has)
            if z3.is_false(hs):
                return dflt
            if z3.is_true(hs):
                return it.const_index(recv, k)
            if st.spec:
                raise Unsupported('symbolic get on constant dict in spec')
            if st.branch_bool(has, 'constget'):
                return it.const_index(recv, k)
            return dflt
        if m == 'copy':
            return recv
        raise Unsupported('const.' + m)
    raise Unsupported('method %s of %r (line %s)' % (m, recv, st.cur_line))


def list_method(eng, it, L, m, args, kwargs):
    st = it.st
    if m == 'copy':
        sq = it.as_seq(L)
        if st.spec:
            return sq
        return it.materialize(sq)
    if m == 'tolist':
        return L
    if st.spec:
        raise EngineError('list mutation in spec mode')
    if not isinstance(L, VList):
        raise EngineError('mutation of a functional sequence')
    if m == 'append':
        it.list_append(L, args[0])
        return VNone()
    if m == 'extend':
        it.list_extend(L, args[0])
        return VNone()
    if m == 'insert':
        it.list_insert(L, args[0], args[1])
        return VNone()
    if m == 'clear':
        list_set_len(st, L, z3.IntVal(0))
        return VNone()
    if m == 'pop':
        n = list_len(st, L)
        if not st.valid(n > 0):
            if not st.branch_bool(n > 0, 'pop'):
                raise PyRaise(VExc('IndexError', (VStr('pop from empty list'),)))
        if args:
            p = it.idx(args[0])
            p = z3.simplify(z3.If(p < 0, p + n, p))
            ok = z3.And(p >= 0, p < n)
            if not st.valid(ok):
                if not st.branch_bool(ok, 'popidx'):
                    raise PyRaise(VExc('IndexError'))
            v = list_get(st, L, p)
            it.list_remove_at(L, p)
            return v
        v = list_get(st, L, z3.simplify(n - 1))
        list_set_len(st, L, z3.simplify(n - 1))
        return v
    if m == 'remove':
        # first occurrence
        n = list_len(st, L)
        sq = seq_of(st, L)
        p = st.fresh('pos', z3.IntSort())
        j = z3.Int('rm!j')
        found = z3.And(p >= 0, p < n, it.eq(sq.get(p), args[0]),
                       z3.ForAll([j], z3.Implies(z3.And(j >= 0, j < p), z3.Not(it.eq(sq.get(j), args[0])))))
        absent = z3.ForAll([j], z3.Implies(z3.And(j >= 0, j < n), z3.Not(it.eq(sq.get(j), args[0]))))
        cn = z3.simplify(n)
        k = st.branch([found, absent], 'remove')
        if k == 1:
            raise PyRaise(VExc('ValueError', (VStr('list.remove(x): x not in list'),)))
        it.list_remove_at(L, p)
        st.ghost['last_remove_pos'] = p      # ghost: index of the entry list.remove() took out (spec: last_removed_index())
        return VNone()
    if m == 'index':
        raise Unsupported('list.index')
    raise Unsupported('list.' + m)


def record_method(eng, it, rec, m, args, kwargs):
    st = it.st
    if m == 'get':
        k = args[0]
        if not isinstance(k, VStr):
            raise Unsupported('dict.get with symbolic key')
        dflt = args[1] if len(args) > 1 else VNone()
        if rec.cls == '{}':
            return dflt
        has = it.rec_has(rec, k.s)
        hs = z3.simplify(has)
        if z3.is_true(hs):
            return it.rec_load(rec, k.s, check=False)
        if z3.is_false(hs):
            return dflt
        return it.ite(has, it.rec_load(rec, k.s, check=False), dflt)
    if m == 'copy':
        if st.spec:
            return rec
        if rec.cls is None or rec.cls == '{}' or rec.cls not in eng.schema.rec_keys:
            raise Unsupported('copy of a record of unknown class (line %s)' % st.cur_line)
        r = st.new_ref()
        new = VRef(r, rec.cls)
        for k, T_ in eng.schema.rec_keys[rec.cls].items():
            has = st.hget('k:%s#has' % k, z3.IntSort(), rec.t)
            st.hset('k:%s#has' % k, z3.IntSort(), r, has)
            for suf in eng.slot_suffixes(T_):
                srt = eng.slot_sort(st, T_, suf)
                st.hset('k:%s%s' % (k, suf), srt, r, st.hget('k:%s%s' % (k, suf), srt, rec.t))
        return new
    raise Unsupported('record method ' + m)


def queue_method(eng, it, q, m, args, kwargs):
    """queue.Queue as a FIFO list; get() on an empty queue raises Empty (the time-out is assumed to elapse)"""
    st = it.st
    L = VList(q.t, q.elem)
    if m in ('put', 'put_nowait'):
        item = args[0]
        if isinstance(item, VExc):
            # an exception object kept in a queue: an opaque object (class and message are not modelled)
            item = VRef(st.new_ref(), 'PyException')
        it.list_append(L, item)
        return VNone()
    if m == 'qsize':
        return it.from_idx(list_len(st, L))
    if m in ('get', 'get_nowait'):
        pol = [ast.literal_eval(c.args[0]) for c in eng.unit.of('queue_get')]
        if pol and pol[0] == 'extern':
            # blocking wait: an event of the ghost trace; another thread may fill the queue meanwhile, so the outcome is
            # an arbitrary item or queue.Empty
            block = kwargs.get('block', args[0] if args else VBool(z3.BoolVal(True)))
            timeout = kwargs.get('timeout', args[1] if len(args) > 1 else VNone())
            f = VFunc(eng.fn_const('queue.Queue.get'), TFunc(q.elem))
            res = eng.callout(it, f, [VRef(q.t, None), block, timeout], {}, None)
            eng.result.assumptions.add('queue.Queue.get(block, timeout) returns a queued item or raises queue.Empty')
            if st.branch([z3.BoolVal(True), z3.BoolVal(True)], 'queue_get') == 1:
                raise PyRaise(VExc('Empty'))
            return res
        n = list_len(st, L)
        if not st.valid(n > 0):
            if not st.branch_bool(n > 0, 'qget'):
                raise PyRaise(VExc('Empty'))
        v = list_get(st, L, z3.IntVal(0))
        it.list_remove_at(L, z3.IntVal(0))
        return v
    raise Unsupported('queue.' + m)


# ---------------------------------------------------------------------------
# spec helpers
# ---------------------------------------------------------------------------
def spec_builtin(eng, it, name, args, kwargs):
    st = it.st
    ar = eng.ar
    if name == 'implies':
        return VBool(z3.Implies(it.truth(args[0]), it.truth(args[1])))
    if name == 'iff':
        return VBool(it.truth(args[0]) == it.truth(args[1]))
    if name == 'ite':
        return it.ite(it.truth(args[0]), args[1], args[2])
    if name == 'is_none':
        return VBool(it.is_(args[0], VNone()))
    if name == 'octets':
        conj = []
        for a in args:
            sq = it.as_seq(a)
            n = z3.simplify(sq.len)
            if z3.is_int_value(n) and n.as_long() <= 80:
                for k in range(n.as_long()):
                    t = it.to_int(sq.get(z3.IntVal(k)))
                    conj.append(z3.And(t >= ar.val(0), t <= ar.val(255)))
            else:
                i = z3.Int('oc!%d' % next(st.fresh_counter))
                t = it.to_int(sq.get(i))
                conj.append(z3.ForAll([i], z3.Implies(z3.And(i >= 0, i < n), z3.And(t >= ar.val(0), t <= ar.val(255)))))
        return VBool(z3.simplify(z3.And(conj)))
    if name == 'bits':
        x = it.to_int(it.concretize(args[0]))
        lo = ar.as_long(it.to_int(args[1]))
        n = ar.as_long(it.to_int(args[2]))
        if z3.is_int(x):
            t = x
            if lo:
                t = t / (1 << lo)
            return VInt(z3.simplify(t % (1 << n)))
        return VInt(z3.simplify((x >> lo) & ((1 << n) - 1)))
    if name == 'seq':
        return it.make_list(list(args))
    if name == 'rep':
        v = args[0]
        n = it.idx(args[1])
        return VSeq(z3.simplify(z3.If(n > 0, n, 0)), lambda i: v, it.elem_type_of(v), z3.IntVal(KIND_LIST))
    if name == 'concat':
        r = it.as_seq(args[0])
        for a in args[1:]:
            r = it.seq_concat(r, a)
        return r
    if name == 'has_key':
        if isinstance(args[0], VTable):
            return VBool(table_has(st, args[0], it.idx(args[1])))
        return VBool(it.rec_has(it.concretize(args[0]), args[1].s))
    if name == 'last_removed_index':
        p_ = st.ghost.get('last_remove_pos')
        if p_ is None:
            return it.vint(-1)
        return it.from_idx(p_)
    if name == 'owner':
        l = it.concretize(args[0], (VList,))
        t = st.hget_in(st.cur_heap(), 'G:own', z3.IntSort(), l.t)
        if st.cur_heap() is st.H:
            st.wf_array('G:own', 'ref')
        return VRef(t, None)
    if name == 'has_keys':
        rec = it.concretize(args[0])
        return VBool(z3.And([it.rec_has(rec, a.s) for a in args[1:]]))
    if name == 'table_same_except':
        # table_same_except(tb, key...): the dict differs from its old() state at most at the given keys
        tb = it.concretize(args[0])
        dom, val = table_dom(st, tb), table_val(st, tb)
        st.heap_stack.append(st.old)
        try:
            dom0, val0 = table_dom(st, tb), table_val(st, tb)
        finally:
            st.heap_stack.pop()
        for a in args[1:]:
            k = it.idx(a)
            dom0 = z3.Store(dom0, k, z3.Select(dom, k))
            val0 = z3.Store(val0, k, z3.Select(val, k))
        kq = z3.Int('ts!k')
        return VBool(z3.And(dom == dom0, z3.ForAll([kq], z3.Implies(z3.Select(dom, kq), z3.Select(val, kq) == z3.Select(val0, kq)))))
    if name == 'typeis':
        v = it.concretize(args[0]) if not isinstance(args[0], VUnion) else args[0]
        cname = args[1].s
        if isinstance(v, VUnion):
            for c, a in flatten_union(v):
                if isinstance(a, VRef):
                    return VRef(a.t, cname)
        if isinstance(v, VRef):
            return VRef(v.t, cname)
        raise EngineError('typeis on %r' % (v,))
    if name == 'select':
        return it.getitem(args[0], args[1])
    if name == 'intdiv':
        a, b = it.to_int(args[0]), ar.as_long(it.to_int(args[1]))
        return VInt(a / b) if ar.mode == 'int' else it.binop(ast.FloorDiv(), args[0], args[1])
    if name == 'same_list':
        # quantifier-free equality of two heap lists: same length, same kind class, identical element arrays.
        # (event arguments are snapshots that copy the element array wholesale, so this is what a call-out with
        #  the list itself yields; it implies element-wise equality)
        a, b = it.concretize(args[0], (VList, VSeq)), it.concretize(args[1], (VList, VSeq))

        def parts(x):
            if isinstance(x, VList) and isinstance(x.elem, TInt):
                return list_len(st, x), list_kind(st, x), list_inner(st, x)
            if isinstance(x, VSeq) and x.inner is not None:
                return x.len, x.kind, x.inner
            return None
        pa, pb = parts(a), parts(b)
        if pa is not None and pb is not None:
            return VBool(z3.And(pa[0] == pb[0], (pa[1] == KIND_LIST) == (pb[1] == KIND_LIST), pa[2] == pb[2]))
        if isinstance(a, VList) and isinstance(b, VList) and repr(a.elem) == repr(b.elem):
            return VBool(z3.And(list_len(st, a) == list_len(st, b),
                                (list_kind(st, a) == KIND_LIST) == (list_kind(st, b) == KIND_LIST),
                                list_inner(st, a) == list_inner(st, b)))
        return VBool(it.seq_eq(a, b))
    if name == 'same_elems':
        return VBool(it.seq_eq(args[0], args[1]))
    if name == 'fresh_list':
        v = it.concretize(args[0])
        return VBool(v.t >= FRESH_REF_BASE)
    if name == 'allocated_before':
        v = it.concretize(args[0])
        return VBool(v.t < FRESH_REF_BASE)
    if name == 'no_alias':
        vs = [it.concretize(a) for a in args]
        return VBool(z3.Distinct([v.t for v in vs]) if len(vs) > 1 else z3.BoolVal(True))
    if name == 'fn':
        return VFunc(eng.fn_const(args[0].s))
    if name == 'method':
        obj = it.concretize(args[0])
        ci = eng.repo.find_class(obj.cls)
        return VBound(obj, ci.methods[args[1].s])
    if name == 'steps':
        # steps(d0, delta, d1): d1 is d0 advanced by a whole number (>= 0) of periods delta
        f = eng.ufun('steps', 3, z3.BoolSort(), [z3.RealSort()] * 3)
        a_, b_, c_ = it.to_real(args[0]), it.to_real(args[1]), it.to_real(args[2])
        # instances of the inductive definition (0 periods; one more period) at the terms in question
        if not st.bound_vars:
            st.pc_fact(f(a_, b_, a_))
            st.pc_fact(z3.Implies(f(a_, b_, z3.simplify(c_ - b_)), f(a_, b_, c_)))
        return VBool(f(it.to_real(args[0]), it.to_real(args[1]), it.to_real(args[2])))
    raise EngineError('spec builtin ' + name)
