"""pyvc interpreter: symbolic execution of real function bodies (code mode) and pure
evaluation of contract / spec expressions (spec mode)."""
import ast
import z3

from .core import *
from .heap import *
from . import heap as hp


class BreakEx(Exception):
    pass


class ContinueEx(Exception):
    pass


class ReturnEx(Exception):
    def __init__(self, v):
        self.v = v


def RealOf(f):
    return z3.RealVal(repr(float(f)))


BUILTIN_NAMES = {'len', 'min', 'max', 'int', 'range', 'enumerate', 'list', 'callable', 'isinstance', 'hex', 'str',
                 'bool', 'abs', 'print', 'bytes', 'bytearray', 'sum', 'float', 'tuple', 'dict'}
SPEC_NAMES = {'old', 'implies', 'forall', 'exists', 'ite', 'octets', 'bits', 'seq', 'at_entry', 'unchanged',
              'same_elems', 'same_list', 'owner', 'last_removed_index', 'has_keys', 'table_same_except', 'iff', 'keys_forall', 'typeis', 'fresh_list', 'count', 'select', 'intdiv',
              'is_none', 'rep', 'concat', 'at_head', 'has_key', 'no_alias', 'allocated_before', 'steps', 'sumlen', 'fn', 'method'}
EXC_NAMES = set(EXC_PARENTS) | {'RuntimeWarning'}


class Interp:
    def __init__(self, eng, st):
        self.eng = eng
        self.st = st
        self.ar = eng.ar
        self.repo = eng.repo
        self.schema = eng.schema
        self.call_depth = 0

    # ------------------------------------------------------------------
    # lifting python constants
    # ------------------------------------------------------------------
    def lift(self, v):
        import enum as _enum
        if isinstance(v, bool):
            return VBool(z3.BoolVal(v))
        if isinstance(v, int):
            return VInt(self.ar.val(v), py_trailing_zeros(v), v if v >= 0 else None)
        if isinstance(v, float):
            return VReal(RealOf(v))
        if v is None:
            return VNone()
        if isinstance(v, str):
            return VStr(v)
        if isinstance(v, _enum.Enum):
            return VEnum(type(v).__name__, z3.IntVal(v.value))
        if isinstance(v, (list, tuple, dict)):
            return VConst(v)
        raise Unsupported('constant %r' % (v,))

    def vint(self, n):
        return VInt(self.ar.val(n), py_trailing_zeros(n), n if n >= 0 else None)

    def idx(self, v):
        """V -> Int-sorted index term"""
        v = self.concretize(v, (VInt, VBool))
        if isinstance(v, VInt):
            return self.ar.to_index(v.t)
        if isinstance(v, VBool):
            return z3.If(v.t, z3.IntVal(1), z3.IntVal(0))
        raise self.type_error('index must be int, got %r' % (v,))

    def from_idx(self, t):
        return VInt(z3.simplify(self.ar.from_index(t)))

    def type_error(self, msg):
        if self.st.spec:
            return EngineError('spec type error: %s (line %s)' % (msg, self.st.cur_line))
        return PyRaise(VExc('TypeError', (VStr(msg),)))

    # ------------------------------------------------------------------
    # unions
    # ------------------------------------------------------------------
    def concretize(self, v, want=None):
        """resolve a VUnion to one alternative.  Code mode: fork.  Spec mode: the unique alternative of
        the wanted kind (None is never wanted); its condition becomes a pending definedness guard that
        the enclosing boolean connective / clause conjoins."""
        if not isinstance(v, VUnion):
            return v
        alts = [(c, a) for c, a in flatten_union(v) if not z3.is_false(c)]
        if len(alts) == 1:
            return alts[0][1]
        if self.st.spec:
            pool = [(c, a) for c, a in alts if not isinstance(a, VNone)]
            if want is not None:
                pool = [(c, a) for c, a in pool if isinstance(a, want)]
            if len(pool) != 1:
                raise EngineError('union value needs a definite type in spec mode (line %s): %r' % (self.st.cur_line, [a for _, a in alts]))
            self.st.defined.append(pool[0][0])
            return pool[0][1]
        i = self.st.branch([c for c, _ in alts], 'union')
        return alts[i][1]

    def guarded(self, fn):
        """evaluate fn() collecting its definedness guards locally -> (value, guard list)"""
        st = self.st
        saved = st.defined
        st.defined = []
        try:
            v = fn()
            return v, st.defined
        finally:
            st.defined = saved

    def gtruth(self, node):
        """truth value of a spec expression with its guards embedded"""
        v, g = self.guarded(lambda: self.truth(self.eval(node)))
        return z3.And(g + [v]) if g else v

    def map_union(self, v, f):
        """apply f to each alternative; f returns BoolRef -> result Or(And(c, f(a)))"""
        if isinstance(v, VUnion):
            return z3.simplify(z3.Or([z3.And(c, f(a)) for c, a in flatten_union(v)]))
        return f(v)

    # ------------------------------------------------------------------
    # truthiness and comparisons
    # ------------------------------------------------------------------
    def truth(self, v):
        if isinstance(v, VBool):
            return v.t
        if isinstance(v, VInt):
            return z3.simplify(v.t != self.zero_like(v.t))
        if isinstance(v, VReal):
            return z3.simplify(v.t != 0)
        if isinstance(v, VNone):
            return z3.BoolVal(False)
        if isinstance(v, (VList, VSeq)):
            return z3.simplify(list_len(self.st, v) != 0)
        if isinstance(v, VTuple):
            return z3.BoolVal(len(v.items) > 0)
        if isinstance(v, VStr):
            return z3.BoolVal(bool(v.s))
        if isinstance(v, VConst):
            return z3.BoolVal(bool(v.obj))
        if isinstance(v, VUnion):
            return self.map_union(v, self.truth)
        if isinstance(v, (VRef, VFunc, VBound, VEnum, VClass, VTable, VQueue, VSymStr, VKwargs, VLambda)):
            if isinstance(v, VTable):
                raise Unsupported('truthiness of table')
            if isinstance(v, VKwargs):
                return z3.BoolVal(bool(v.d))
            return z3.BoolVal(True)
        raise Unsupported('truthiness of %r' % (v,))

    def num_pair(self, a, b):
        """coerce two numeric values to a common sort: returns ('int'|'real', ta, tb) or None"""
        def isnum(x):
            return isinstance(x, (VInt, VBool, VReal))
        if not (isnum(a) and isnum(b)):
            return None
        if isinstance(a, VReal) or isinstance(b, VReal):
            return 'real', self.to_real(a), self.to_real(b)
        ta, tb = self.unify(self.to_int(a), self.to_int(b))
        return 'int', ta, tb

    def unify(self, ta, tb):
        """bv mode: structural ints (lengths, indices) are Int-sorted; make both operands the same sort"""
        ia, ib = z3.is_int(ta), z3.is_int(tb)
        if ia == ib:
            return ta, tb
        if ia:
            cb = self.ar.as_long(tb)
            if cb is not None:
                return ta, z3.IntVal(cb)
            ca = self.ar.as_long(ta)
            if ca is not None:
                return self.ar.val(ca), tb
            return z3.Int2BV(ta, self.ar.width), tb
        tb2, ta2 = self.unify(tb, ta)
        return ta2, tb2

    def to_int(self, v):
        if isinstance(v, VInt):
            return v.t
        if isinstance(v, VBool):
            return z3.If(v.t, self.ar.val(1), self.ar.val(0))
        raise EngineError('to_int %r' % (v,))

    def zero_like(self, t):
        return z3.IntVal(0) if z3.is_int(t) else z3.BitVecVal(0, t.size())

    def to_real(self, v):
        if isinstance(v, VReal):
            return v.t
        if isinstance(v, VInt):
            return z3.ToReal(self.ar.to_index(v.t))
        if isinstance(v, VBool):
            return z3.If(v.t, z3.RealVal(1), z3.RealVal(0))
        raise EngineError('to_real %r' % (v,))

    def seq_eq(self, a, b):
        st = self.st
        sa, sb = seq_of(st, a) if isinstance(a, VList) else a, seq_of(st, b) if isinstance(b, VList) else b
        la, lb = sa.len, sb.len
        # an event argument (snapshot backed by an array) against a heap list / another snapshot: quantifier-free
        # comparison of the element arrays (the snapshot copies the array of the list that was passed)
        ia = sa.inner if sa.inner is not None else None
        ib = sb.inner if sb.inner is not None else None
        if st.spec and (ia is not None or ib is not None) and isinstance(a, (VList, VSeq)) and isinstance(b, (VList, VSeq)):
            if ia is None and isinstance(a, VList) and isinstance(a.elem, TInt):
                ia = list_inner(st, a)
            if ib is None and isinstance(b, VList) and isinstance(b.elem, TInt):
                ib = list_inner(st, b)
            if ia is not None and ib is not None:
                ka, kb = list_kind(st, a), list_kind(st, b)
                return z3.simplify(z3.And(la == lb, (ka == KIND_LIST) == (kb == KIND_LIST), ia == ib))
        conj = [la == lb]
        # list vs bytes-like never compare equal in Python
        ka, kb = list_kind(st, a), list_kind(st, b)
        conj.append((ka == KIND_LIST) == (kb == KIND_LIST))
        ca = z3.simplify(la)
        if not z3.is_int_value(ca):
            # a length the path condition (code mode) or the assumptions so far (spec mode) force to one value
            fv = st.forced_int(la)
            if fv is not None and 0 <= fv <= 16:
                ca = z3.IntVal(fv)
        if z3.is_int_value(ca) and ca.as_long() <= 80:
            for i in range(ca.as_long()):
                conj.append(self.eq(sa.get(z3.IntVal(i)), sb.get(z3.IntVal(i))))
        else:
            i = st.fresh('i', z3.IntSort())
            body = self.eq(sa.get(i), sb.get(i))
            conj.append(z3.ForAll([i], z3.Implies(z3.And(i >= 0, i < la), body)))
        return z3.simplify(z3.And(conj))

    def eq(self, a, b):
        """Python == as BoolRef"""
        if isinstance(a, VUnion):
            return self.map_union(a, lambda x: self.eq(x, b))
        if isinstance(b, VUnion):
            return self.map_union(b, lambda x: self.eq(a, x))
        np_ = self.num_pair(a, b)
        if np_:
            return z3.simplify(np_[1] == np_[2])
        if isinstance(a, VNone) or isinstance(b, VNone):
            return z3.BoolVal(isinstance(a, VNone) and isinstance(b, VNone))
        if isinstance(a, VEnum) and isinstance(b, VEnum):
            if a.cls != b.cls:
                return z3.BoolVal(False)
            return z3.simplify(a.t == b.t)
        if isinstance(a, (VList, VSeq)) and isinstance(b, (VList, VSeq)):
            return self.seq_eq(a, b)
        if isinstance(a, (VList, VSeq)) and isinstance(b, VConst) and isinstance(b.obj, (list, tuple)):
            return self.seq_eq(a, self.const_seq(b.obj))
        if isinstance(b, (VList, VSeq)) and isinstance(a, VConst) and isinstance(a.obj, (list, tuple)):
            return self.seq_eq(self.const_seq(a.obj), b)
        if isinstance(a, VRef) and isinstance(b, VRef):
            return z3.simplify(a.t == b.t)
        if isinstance(a, VTable) and isinstance(b, VTable):
            return z3.simplify(a.t == b.t)
        if isinstance(a, (VFunc, VBound)) and isinstance(b, (VFunc, VBound)):
            return z3.simplify(self.func_id(a) == self.func_id(b))
        if isinstance(a, VStr) and isinstance(b, VStr):
            return z3.BoolVal(a.s == b.s)
        if isinstance(a, (VStr, VSymStr)) and isinstance(b, (VStr, VSymStr)):
            return z3.simplify(self.str_term(a) == self.str_term(b))
        if isinstance(a, VTuple) and isinstance(b, VTuple):
            if len(a.items) != len(b.items):
                return z3.BoolVal(False)
            return z3.simplify(z3.And([self.eq(x, y) for x, y in zip(a.items, b.items)]))
        if isinstance(a, VConst) and isinstance(b, VConst):
            return z3.BoolVal(a.obj == b.obj)
        if isinstance(a, VClass) and isinstance(b, VClass):
            return z3.BoolVal(a.info is b.info)
        # unrelated types: Python's default == is identity -> False
        kinds = (type(a), type(b))
        if type(a) is type(b):
            raise Unsupported('== on %r' % (kinds,))
        return z3.BoolVal(False)

    def func_id(self, f):
        if isinstance(f, VFunc):
            return f.t
        return self.eng.bound_id(self.st, f)

    def str_term(self, s):
        if isinstance(s, VSymStr):
            return s.t
        return self.eng.str_id(s.s)

    def is_(self, a, b):
        """Python `is`"""
        if isinstance(a, VUnion):
            return self.map_union(a, lambda x: self.is_(x, b))
        if isinstance(b, VUnion):
            return self.map_union(b, lambda x: self.is_(a, x))
        if isinstance(a, VNone) or isinstance(b, VNone):
            return z3.BoolVal(isinstance(a, VNone) and isinstance(b, VNone))
        if isinstance(a, VBool) and isinstance(b, VBool):
            return z3.simplify(a.t == b.t)
        if isinstance(a, VBool) != isinstance(b, VBool):
            return z3.BoolVal(False)
        if isinstance(a, VInt) and isinstance(b, VInt):
            # CPython small-int cache: identity == equality for -5..256 (assumption, recorded)
            self.st.assumptions_used.add('`is` on ints is equality (CPython small-int cache, values -5..256)')
            return z3.simplify(a.t == b.t)
        if isinstance(a, VEnum) and isinstance(b, VEnum):
            return self.eq(a, b)
        if isinstance(a, VRef) and isinstance(b, VRef):
            return z3.simplify(a.t == b.t)
        if isinstance(a, (VList,)) and isinstance(b, (VList,)):
            return z3.simplify(a.t == b.t)
        if isinstance(a, (VFunc, VBound)) and isinstance(b, (VFunc, VBound)):
            return self.eq(a, b)
        if type(a) is not type(b):
            return z3.BoolVal(False)
        raise Unsupported('`is` on %r, %r' % (a, b))

    def order(self, op, a, b):
        NUMSEQ = (VInt, VBool, VReal, VList, VSeq)
        a, b = self.concretize(a, NUMSEQ), self.concretize(b, NUMSEQ)
        np_ = self.num_pair(a, b)
        if np_ is None:
            if isinstance(a, (VList, VSeq)) and isinstance(b, (VList, VSeq)):
                return self.seq_order(op, a, b)
            raise self.type_error('ordering %r %r' % (a, b))
        kind, ta, tb = np_
        if isinstance(op, ast.Lt):
            return ta < tb
        if isinstance(op, ast.LtE):
            return ta <= tb
        if isinstance(op, ast.Gt):
            return ta > tb
        return ta >= tb

    def seq_order(self, op, a, b):
        """lexicographic comparison of two sequences of concrete (small) length"""
        sa, sb = self.as_seq(a), self.as_seq(b)
        na, nb = self.st.forced_int(sa.len), self.st.forced_int(sb.len)
        if na is None or nb is None or na > 32 or nb > 32:
            raise Unsupported('ordering comparison of sequences of symbolic length (line %s)' % self.st.cur_line)
        m = min(na, nb)
        ea = [self.concretize(sa.get(z3.IntVal(i))) for i in range(m)]
        eb = [self.concretize(sb.get(z3.IntVal(i))) for i in range(m)]
        lt_cases, prefix = [], []
        for i in range(m):
            lt_cases.append(z3.And(prefix + [self.order(ast.Lt(), ea[i], eb[i])]))
            prefix = prefix + [self.eq(ea[i], eb[i])]
        alleq = z3.And(prefix) if prefix else z3.BoolVal(True)
        lt = z3.Or(lt_cases + [z3.And(alleq, z3.BoolVal(na < nb))])
        eq = z3.And(alleq, z3.BoolVal(na == nb))
        if isinstance(op, ast.Lt):
            return z3.simplify(lt)
        if isinstance(op, ast.LtE):
            return z3.simplify(z3.Or(lt, eq))
        if isinstance(op, ast.Gt):
            return z3.simplify(z3.Not(z3.Or(lt, eq)))
        return z3.simplify(z3.Not(lt))

    def const_seq(self, lst):
        vals = [self.lift(x) for x in lst]
        if all(isinstance(v, VInt) for v in vals):
            def get(i, vals=vals):
                t = self.ar.val(0)
                for k in range(len(vals) - 1, -1, -1):
                    t = z3.If(i == k, vals[k].t, t)
                return VInt(z3.simplify(t))
            return VSeq(z3.IntVal(len(vals)), get, INT, z3.IntVal(KIND_LIST))
        raise Unsupported('constant sequence %r' % (lst,))

    # ------------------------------------------------------------------
    # arithmetic
    # ------------------------------------------------------------------
    def side(self, cond, what):
        """side obligation of the encoding"""
        st = self.st
        c = z3.simplify(cond)
        if z3.is_true(c):
            return
        if st.spec:
            st.side.append((what, c))
        else:
            st.oblige('encoding.' + what, 'side', c)
            st.assume(c)

    def binop(self, op, a, b):
        st, ar = self.st, self.ar
        NUMSEQ = (VInt, VBool, VReal, VList, VSeq, VStr, VSymStr, VConst)
        a, b = self.concretize(a, NUMSEQ), self.concretize(b, NUMSEQ)
        # sequences
        if isinstance(op, ast.Mult):
            if isinstance(a, (VList, VSeq, VConst)) and isinstance(b, (VInt, VBool)):
                return self.seq_repeat(a, b)
            if isinstance(b, (VList, VSeq, VConst)) and isinstance(a, (VInt, VBool)):
                return self.seq_repeat(b, a)
        if isinstance(op, ast.Add) and isinstance(a, (VList, VSeq)) and isinstance(b, (VList, VSeq)):
            return self.seq_concat(a, b)
        if isinstance(op, ast.Add) and isinstance(a, (VStr, VSymStr)) and isinstance(b, (VStr, VSymStr)):
            if isinstance(a, VStr) and isinstance(b, VStr):
                return VStr(a.s + b.s)
            return VSymStr(self.eng.ufun('strcat', 2)(self.str_term(a), self.str_term(b)))
        np_ = self.num_pair(a, b)
        if np_ is None:
            raise self.type_error('unsupported operand types for %s: %r %r' % (type(op).__name__, a, b))
        kind, ta, tb = np_
        if kind == 'real' or isinstance(op, ast.Div):
            ra, rb = self.to_real(a), self.to_real(b)
            if isinstance(op, ast.Add):
                return VReal(ra + rb)
            if isinstance(op, ast.Sub):
                return VReal(ra - rb)
            if isinstance(op, ast.Mult):
                return VReal(ra * rb)
            if isinstance(op, ast.Div):
                if not st.spec:
                    if st.branch_bool(rb == 0, 'div0'):
                        raise PyRaise(VExc('ZeroDivisionError'))
                st.assumptions_used.add('float arithmetic treated as real arithmetic')
                return VReal(ra / rb)
            raise Unsupported('real operator %s' % type(op).__name__)
        tza = a.tz if isinstance(a, VInt) else 0
        tzb = b.tz if isinstance(b, VInt) else 0
        if z3.is_int(ta):
            ba = a.bits if isinstance(a, VInt) else 1
            bb = b.bits if isinstance(b, VInt) else 1
            r = self.binop_int(op, ta, tb, tza, tzb, ba, bb)
            return r
        return self.binop_bv(op, ta, tb)

    def binop_int(self, op, ta, tb, tza, tzb, ba=None, bb=None):
        r = self.binop_int0(op, ta, tb, tza, tzb, ba, bb)
        if isinstance(r, VInt) and r.bits is None:
            # possible-bit masks: exact bookkeeping for mask / shift / disjoint or / disjoint add
            ca, cb = self.ar.as_long(ta), self.ar.as_long(tb)
            if isinstance(op, ast.BitAnd):
                if cb is not None and cb >= 0:
                    r.bits = cb & ba if ba is not None else cb
                elif ca is not None and ca >= 0:
                    r.bits = ca & bb if bb is not None else ca
            elif isinstance(op, ast.LShift) and ba is not None and cb is not None and 0 <= cb < 256:
                r.bits = ba << cb
            elif isinstance(op, ast.RShift) and ba is not None and cb is not None and cb >= 0:
                r.bits = ba >> cb
            elif isinstance(op, ast.Mult) and ba is not None and cb is not None and cb > 0 and cb & (cb - 1) == 0:
                r.bits = ba << (cb.bit_length() - 1)
            elif isinstance(op, (ast.BitOr, ast.Add)) and ba is not None and bb is not None and ba & bb == 0:
                r.bits = ba | bb
            elif isinstance(op, ast.BitOr) and ba is not None and bb is not None:
                r.bits = ba | bb
        return r

    def binop_int0(self, op, ta, tb, tza, tzb, ba=None, bb=None):
        st, ar = self.st, self.ar
        ca, cb = ar.as_long(ta), ar.as_long(tb)
        if isinstance(op, ast.Add):
            return VInt(z3.simplify(ta + tb), min(tza, tzb))
        if isinstance(op, ast.Sub):
            return VInt(z3.simplify(ta - tb), min(tza, tzb))
        if isinstance(op, ast.Mult):
            if ca is not None and cb is not None:
                return self.vint(ca * cb)
            return VInt(z3.simplify(ta * tb), min(tza + tzb, 10 ** 6))
        if isinstance(op, (ast.FloorDiv, ast.Mod)):
            if cb is None:
                raise Unsupported('division by a symbolic value in int mode (line %s); use cases()' % st.cur_line)
            if cb == 0:
                raise PyRaise(VExc('ZeroDivisionError'))
            if cb < 0:
                raise Unsupported('negative divisor')
            if isinstance(op, ast.FloorDiv):
                return VInt(z3.simplify(ta / tb))
            return VInt(z3.simplify(ta % tb))
        if isinstance(op, ast.Pow):
            if ca is not None and cb is not None and cb >= 0:
                return self.vint(ca ** cb)
            raise Unsupported('symbolic **')
        if isinstance(op, ast.LShift):
            if cb is None or cb < 0:
                raise Unsupported('symbolic shift amount (line %s)' % st.cur_line)
            return VInt(z3.simplify(ta * (1 << cb)), min(tza + cb, 10 ** 6))
        if isinstance(op, ast.RShift):
            if cb is None or cb < 0:
                raise Unsupported('symbolic shift amount (line %s)' % st.cur_line)
            return VInt(z3.simplify(ta / (1 << cb)), max(tza - cb, 0))
        if isinstance(op, ast.BitAnd):
            if ca is not None and cb is not None:
                return self.vint(ca & cb)
            if cb is None and ca is not None:
                ta, tb, ca, cb, tza, tzb = tb, ta, cb, ca, tzb, tza
            if cb is None:
                raise Unsupported('`&` of two symbolic values in int mode (line %s)' % st.cur_line)
            if cb == 0:
                return self.vint(0)
            span = mask_span(cb)
            if span is None:
                raise Unsupported('`&` with non-contiguous mask %#x in int mode (line %s)' % (cb, st.cur_line))
            lo, hi = span
            t = ta
            if lo:
                t = t / (1 << lo)
            t = t % (1 << (hi - lo))
            if lo:
                t = t * (1 << lo)
            return VInt(z3.simplify(t), lo)
        if isinstance(op, ast.BitOr):
            if ca is not None and cb is not None:
                return self.vint(ca | cb)
            if ca == 0:
                return VInt(tb, tzb)
            if cb == 0:
                return VInt(ta, tza)
            if ba is not None and bb is not None and ba & bb == 0:
                # the operands cannot have a common set bit (masks are exact over-approximations): a | b == a + b
                return VInt(z3.simplify(ta + tb), min(tza, tzb))
            # a | b == a + b when 0 <= lowpart < 2^k and highpart is a multiple of 2^k
            cands = []
            if 0 < tza < 10 ** 6:
                cands.append((tza, tb))      # a is the high part, b must fit below 2^tza
            if 0 < tzb < 10 ** 6:
                cands.append((tzb, ta))
            cands.sort(key=lambda c: -c[0])
            if not cands:
                raise Unsupported('`|` without a structurally known bit split in int mode (line %s)' % st.cur_line)
            chosen = cands[0]
            if not st.spec and len(cands) > 1:
                for k, low in cands:
                    if st.valid(z3.And(low >= 0, low < (1 << k))):
                        chosen = (k, low)
                        break
            k, low = chosen
            self.side(z3.And(low >= 0, low < (1 << k)), 'or_disjoint')
            return VInt(z3.simplify(ta + tb), min(tza, tzb))
        raise Unsupported('int operator %s' % type(op).__name__)

    def binop_bv(self, op, ta, tb):
        st, ar = self.st, self.ar
        W = ar.width
        if isinstance(op, ast.Add):
            self.side(z3.And(z3.BVAddNoOverflow(ta, tb, True), z3.BVAddNoUnderflow(ta, tb)), 'bv_no_overflow')
            return VInt(z3.simplify(ta + tb))
        if isinstance(op, ast.Sub):
            self.side(z3.And(z3.BVSubNoOverflow(ta, tb), z3.BVSubNoUnderflow(ta, tb, True)), 'bv_no_overflow')
            return VInt(z3.simplify(ta - tb))
        if isinstance(op, ast.Mult):
            self.side(z3.And(z3.BVMulNoOverflow(ta, tb, True), z3.BVMulNoUnderflow(ta, tb)), 'bv_no_overflow')
            return VInt(z3.simplify(ta * tb))
        if isinstance(op, ast.BitAnd):
            return VInt(z3.simplify(ta & tb))
        if isinstance(op, ast.BitOr):
            return VInt(z3.simplify(ta | tb))
        if isinstance(op, ast.BitXor):
            return VInt(z3.simplify(ta ^ tb))
        cb = ar.as_long(tb)
        ca = ar.as_long(ta)
        if isinstance(op, ast.Pow):
            if ca is not None and cb is not None and cb >= 0:
                return self.vint(ca ** cb)
            raise Unsupported('symbolic **')
        if isinstance(op, ast.LShift):
            if cb is None or cb < 0 or cb >= W:
                raise Unsupported('shift amount (line %s)' % st.cur_line)
            r = ta << cb
            self.side((r >> cb) == ta, 'bv_no_overflow')
            return VInt(z3.simplify(r))
        if isinstance(op, ast.RShift):
            if cb is None or cb < 0:
                raise Unsupported('shift amount (line %s)' % st.cur_line)
            if cb >= W:
                cb = W - 1
            return VInt(z3.simplify(ta >> cb))       # arithmetic shift == Python semantics
        if isinstance(op, (ast.FloorDiv, ast.Mod)):
            if cb is None or cb <= 0:
                raise Unsupported('bv division by non-constant')
            q = z3.If(ta >= 0, z3.UDiv(ta, tb), -z3.UDiv(-ta + (tb - 1), tb))
            if isinstance(op, ast.FloorDiv):
                return VInt(z3.simplify(q))
            return VInt(z3.simplify(ta - q * tb))
        raise Unsupported('bv operator %s' % type(op).__name__)

    def unop(self, op, v):
        if isinstance(op, ast.Not):
            return VBool(z3.simplify(z3.Not(self.truth(v))))
        v = self.concretize(v, (VInt, VBool, VReal))
        if isinstance(op, ast.USub):
            if isinstance(v, VReal):
                return VReal(-v.t)
            t = self.to_int(v)
            if not z3.is_int(t):
                self.side(t != self.ar.val(-(1 << (self.ar.width - 1))), 'bv_no_overflow')
            return VInt(z3.simplify(-t))
        if isinstance(op, ast.UAdd):
            return v
        if isinstance(op, ast.Invert):
            t = self.to_int(v)
            if not z3.is_int(t):
                return VInt(z3.simplify(~t))
            return VInt(z3.simplify(-t - 1))
        raise Unsupported('unary %s' % type(op).__name__)

    # ------------------------------------------------------------------
    # sequences (code mode: heap lists; spec mode: functional)
    # ------------------------------------------------------------------
    def as_seq(self, v):
        st = self.st
        v = self.concretize(v, (VSeq, VList, VConst, VTuple))
        if isinstance(v, VSeq):
            return v
        if isinstance(v, VList):
            return seq_of(st, v)
        if isinstance(v, VConst) and isinstance(v.obj, (list, tuple)):
            return self.const_seq(v.obj)
        if isinstance(v, VTuple):
            items = v.items

            def get(i):
                return self.ite_chain(i, items)
            return VSeq(z3.IntVal(len(items)), get, self.elem_type_of(items[0]) if items else INT, z3.IntVal(KIND_LIST))
        raise EngineError('not a sequence: %r (line %s)' % (v, st.cur_line))

    def elem_type_of(self, v):
        if isinstance(v, (VInt,)):
            return INT
        if isinstance(v, VBool):
            return BOOL
        if isinstance(v, VRef):
            return TRef(v.cls)
        if isinstance(v, VList):
            return TList(v.elem)
        if isinstance(v, (VFunc, VBound)):
            return FUNC
        if isinstance(v, VUnion):
            alts = [a for _, a in flatten_union(v)]
            non = [a for a in alts if not isinstance(a, VNone)]
            if non and len(non) < len(alts):
                return TOpt(self.elem_type_of(non[0]))
        raise Unsupported('element type of %r' % (v,))

    def ite_chain(self, i, items):
        """value of items[i] for symbolic i over python list of V (same type)"""
        ci = z3.simplify(i)
        if z3.is_int_value(ci):
            return items[ci.as_long()]
        r = items[-1]
        for k in range(len(items) - 2, -1, -1):
            r = self.ite(i == k, items[k], r)
        return r

    def ite(self, c, a, b):
        c = z3.simplify(c)
        if z3.is_true(c):
            return a
        if z3.is_false(c):
            return b
        if isinstance(a, VUnion) or isinstance(b, VUnion):
            return VUnion([(c, a), (z3.Not(c), b)])
        np_ = self.num_pair(a, b)
        if np_ and type(a) is type(b):
            if isinstance(a, VBool):
                return VBool(z3.If(c, a.t, b.t))
            if isinstance(a, VReal):
                return VReal(z3.If(c, a.t, b.t))
            return VInt(z3.If(c, np_[1], np_[2]), min(a.tz, b.tz),
                        (a.bits | b.bits) if (a.bits is not None and b.bits is not None) else None)
        if np_ and np_[0] == 'real':
            return VReal(z3.If(c, np_[1], np_[2]))
        if isinstance(a, VRef) and isinstance(b, VRef) and a.cls == b.cls:
            return VRef(z3.If(c, a.t, b.t), a.cls)
        if isinstance(a, VList) and isinstance(b, VList):
            return VList(z3.If(c, a.t, b.t), a.elem)
        if isinstance(a, VEnum) and isinstance(b, VEnum) and a.cls == b.cls:
            return VEnum(a.cls, z3.If(c, a.t, b.t))
        if isinstance(a, (VFunc, VBound)) and isinstance(b, (VFunc, VBound)):
            return VFunc(z3.If(c, self.func_id(a), self.func_id(b)))
        if isinstance(a, (VSeq, VList)) and isinstance(b, (VSeq, VList)):
            sa, sb = self.as_seq(a), self.as_seq(b)
            return VSeq(z3.If(c, sa.len, sb.len), lambda i: self.ite(c, sa.get(i), sb.get(i)), sa.elem,
                        z3.If(c, list_kind(self.st, sa), list_kind(self.st, sb)))
        if isinstance(a, VTuple) and isinstance(b, VTuple) and len(a.items) == len(b.items):
            return VTuple([self.ite(c, x, y) for x, y in zip(a.items, b.items)])
        if isinstance(a, VNone) and isinstance(b, VNone):
            return a
        if isinstance(a, VStr) and isinstance(b, VStr) and a.s == b.s:
            return a
        if isinstance(a, (VStr, VSymStr)) and isinstance(b, (VStr, VSymStr)):
            return VSymStr(z3.If(c, self.str_term(a), self.str_term(b)))
        return VUnion([(c, a), (z3.Not(c), b)])

    def seq_repeat(self, s, n):
        st = self.st
        nt = self.idx(n)
        if isinstance(s, VConst):
            s = self.as_seq(s)
        sq = self.as_seq(s) if not isinstance(s, VSeq) else s
        slen = z3.simplify(sq.len)
        total = z3.simplify(z3.If(nt > 0, nt, 0) * slen)
        if st.spec:
            if z3.is_int_value(slen) and slen.as_long() == 1:
                e0 = sq.get(z3.IntVal(0))
                return VSeq(total, lambda i: e0, sq.elem, z3.IntVal(KIND_LIST))
            raise Unsupported('spec repetition of multi-element sequence')
        if not (z3.is_int_value(slen)):
            raise Unsupported('repetition of symbolic-length list')
        k = slen.as_long()
        elem = sq.elem
        if k == 1:
            e0 = sq.get(z3.IntVal(0))
            inner = z3.K(z3.IntSort(), elem_term(st, VList(None, elem), e0))
            return list_alloc(st, elem, total, inner)
        cn = z3.simplify(nt)
        if not z3.is_int_value(cn):
            raise Unsupported('symbolic repetition of multi-element list')
        items = [sq.get(z3.IntVal(i % k)) for i in range(k * max(cn.as_long(), 0))]
        return self.make_list(items, elem)

    def make_list(self, items, elem=None, kind=KIND_LIST):
        st = self.st
        if elem is None:
            elem = self.elem_type_of(items[0]) if items else INT
        if st.spec:
            def get(i, items=items):
                if not items:
                    return VInt(self.ar.val(0))
                return self.ite_chain(i, items)
            return VSeq(z3.IntVal(len(items)), get, elem, z3.IntVal(kind))
        L = list_alloc(st, elem, len(items), None, kind)
        if items:
            inner = list_inner(st, L)
            for k, it in enumerate(items):
                inner = z3.Store(inner, k, elem_term(st, L, it))
            list_set_inner(st, L, inner)
        return L

    def seq_concat(self, a, b):
        st = self.st
        sa, sb = self.as_seq(a), self.as_seq(b)
        la = sa.len

        def get(i):
            return self.ite(i < la, sa.get(i), sb.get(i - la))
        res = VSeq(z3.simplify(sa.len + sb.len), get, sa.elem, list_kind(st, sa))
        if st.spec:
            return res
        return self.materialize(res)

    def materialize(self, sq, kind=None):
        """functional sequence -> fresh heap list (code mode)"""
        st = self.st
        n = z3.simplify(sq.len)
        if kind is None:
            kind = sq.kind if sq.kind is not None else KIND_LIST
        if z3.is_int_value(n) and n.as_long() <= 70:
            items = [sq.get(z3.IntVal(i)) for i in range(n.as_long())]
            return self.make_list(items, sq.elem, kind) if items else list_alloc(st, sq.elem, 0, None, kind)
        i = z3.Int('li!%d' % next(st.fresh_counter))
        body = elem_term(st, VList(None, sq.elem), sq.get(i))
        inner = z3.Lambda([i], body)
        return list_alloc(st, sq.elem, n, inner, kind)

    def slice_seq(self, s, lo, hi):
        """Python slice with clamping; lo/hi: Int terms or None"""
        sq = self.as_seq(s)
        n = sq.len

        def norm(x, default):
            if x is None:
                return default
            x = z3.If(x < 0, x + n, x)
            return z3.If(x < 0, 0, z3.If(x > n, n, x))
        lo_t = z3.simplify(norm(lo, z3.IntVal(0)))
        hi_t = z3.simplify(norm(hi, n))
        length = z3.simplify(z3.If(hi_t > lo_t, hi_t - lo_t, 0))
        return VSeq(length, lambda i: sq.get(z3.simplify(i + lo_t)), sq.elem, list_kind(self.st, sq))

    # ------------------------------------------------------------------
    # expression evaluation
    # ------------------------------------------------------------------
    def eval(self, node):
        m = getattr(self, 'e_' + type(node).__name__, None)
        if m is None:
            raise Unsupported('expression %s (line %s)' % (type(node).__name__, getattr(node, 'lineno', '?')))
        if hasattr(node, 'lineno') and not self.st.spec:
            self.st.cur_line = node.lineno
        return m(node)

    def e_Constant(self, node):
        if isinstance(node.value, bytes):
            return self.make_list([self.vint(b) for b in node.value], INT, KIND_BYTES)
        return self.lift(node.value)

    def e_Name(self, node):
        name = node.id
        st = self.st
        for fr in (st.frames[-1],):
            if name in fr.locals:
                v = fr.locals[name]
                if v is None:
                    raise PyRaise(VExc('UnboundLocalError'))
                return v
        return self.global_name(name)

    def global_name(self, name):
        st = self.st
        if st.spec:
            if name == 'result':
                return st.ghost['result']
            if name == 'trace':
                return VTrace()
            if name == 'clock':
                return VReal(st.clock)
            if name == 'spec':
                return VModule('spec')
            if name in SPEC_NAMES:
                return VBuiltin('spec.' + name)
            if name in self.eng.spec_funcs:
                return VBuiltin('specfn.' + name)
            if name in self.eng.spec_consts:
                return self.lift(self.eng.spec_consts[name])
        if name in BUILTIN_NAMES:
            return VBuiltin(name)
        if name in ('True', 'False', 'None'):
            return self.lift({'True': True, 'False': False, 'None': None}[name])
        ci = self.repo.find_class(name)
        if ci is not None:
            return VClass(ci)
        # names of the enclosing class namespace (default values of parameters are evaluated there)
        frc = st.frames[-1].cls if st.frames else None
        while frc:
            cinfo = self.repo.find_class(frc)
            if cinfo is not None:
                if name in cinfo.nested:
                    return VClass(cinfo.nested[name])
                if name in cinfo.consts:
                    return self.lift(cinfo.consts[name])
            frc = frc.rsplit('.', 1)[0] if '.' in frc else None
        if name in ('j1939', 'time', 'queue', 'secrets', 'np', 'numpy', 'logging', 'logger', 'sys', 'threading', 'can'):
            return VModule(name)
        if name in EXC_NAMES:
            return VBuiltin('exc.' + name)
        # module-level constants of the function's module
        fr = st.frames[-1]
        if fr.func is not None:
            mc = self.repo.module_consts.get(fr.func.module, {})
            if name in mc:
                return self.lift(mc[name])
        for mod, mc in self.repo.module_consts.items():
            if name in mc:
                return self.lift(mc[name])
        if name in st.ghost.get('names', {}):
            return st.ghost['names'][name]
        raise EngineError('unknown name %r (line %s)' % (name, st.cur_line))

    def e_BoolOp(self, node):
        st = self.st
        if st.spec:
            saved_ctx = st.conj_ctx
            if not isinstance(node.op, ast.And):
                st.conj_ctx = False
            try:
                ts = [self.gtruth(v) for v in node.values]
            finally:
                st.conj_ctx = saved_ctx
            return VBool(z3.simplify(z3.And(ts) if isinstance(node.op, ast.And) else z3.Or(ts)))
        # code mode: short-circuit, result is the deciding operand
        v = None
        for i, sub in enumerate(node.values):
            v = self.eval(sub)
            if i == len(node.values) - 1:
                return v
            t = self.truth(v)
            taken = st.branch_bool(t, 'boolop')
            if isinstance(node.op, ast.And) and not taken:
                return v
            if isinstance(node.op, ast.Or) and taken:
                return v
        return v

    def e_UnaryOp(self, node):
        st = self.st
        saved_ctx = st.conj_ctx
        st.conj_ctx = False
        try:
            v = self.eval(node.operand)
        finally:
            st.conj_ctx = saved_ctx
        return self.unop(node.op, v)

    def e_BinOp(self, node):
        a = self.eval(node.left)
        b = self.eval(node.right)
        return self.binop(node.op, a, b)

    def e_IfExp(self, node):
        st = self.st
        c = self.truth(self.eval(node.test))
        if st.spec:
            saved_ctx = st.conj_ctx
            st.conj_ctx = False
            try:
                return self.spec_ite(c, node.body, node.orelse)
            finally:
                st.conj_ctx = saved_ctx
        if st.branch_bool(c, 'ifexp'):
            return self.eval(node.body)
        return self.eval(node.orelse)

    def spec_ite(self, c, body, orelse):
        st = self.st
        cs = z3.simplify(c)
        if z3.is_true(cs):
            return self.eval(body)
        if z3.is_false(cs):
            return self.eval(orelse)
        a, ga = self.guarded(lambda: self.eval(body))
        b, gb = self.guarded(lambda: self.eval(orelse))
        if isinstance(a, VBool) and isinstance(b, VBool):
            return VBool(z3.If(c, z3.And(ga + [a.t]), z3.And(gb + [b.t])))
        for g in ga:
            st.defined.append(z3.Implies(c, g))
        for g in gb:
            st.defined.append(z3.Implies(z3.Not(c), g))
        return self.ite(c, a, b)

    def e_Compare(self, node):
        st = self.st
        left = self.eval(node.left)
        res = []
        for op, rn in zip(node.ops, node.comparators):
            right = self.eval(rn)
            res.append(self.compare(op, left, right))
            left = right
            if not st.spec and len(node.ops) > 1:
                # chained comparison short-circuits
                if not st.branch_bool(res[-1], 'chain'):
                    return VBool(z3.BoolVal(False))
                res[-1] = z3.BoolVal(True)
        return VBool(z3.simplify(z3.And(res)) if len(res) > 1 else z3.simplify(res[0]))

    def compare(self, op, a, b):
        if isinstance(op, ast.Eq):
            return self.eq(a, b)
        if isinstance(op, ast.NotEq):
            return z3.Not(self.eq(a, b))
        if isinstance(op, ast.Is):
            return self.is_(a, b)
        if isinstance(op, ast.IsNot):
            return z3.Not(self.is_(a, b))
        if isinstance(op, ast.In):
            return self.contains(b, a)
        if isinstance(op, ast.NotIn):
            return z3.Not(self.contains(b, a))
        return self.order(op, a, b)

    def contains(self, cont, item):
        st = self.st
        cont = self.concretize(cont)
        if isinstance(cont, VKwargs):
            if not isinstance(item, VStr):
                raise Unsupported('kwargs membership with non-constant key')
            return z3.BoolVal(item.s in cont.d)
        if isinstance(cont, VTable):
            return table_has(st, cont, self.idx(item))
        if isinstance(cont, VRef):
            if isinstance(item, VStr):
                return self.rec_has(cont, item.s)
            raise Unsupported('membership in record with symbolic key')
        if isinstance(cont, VConst):
            keys = list(cont.obj.keys()) if isinstance(cont.obj, dict) else list(cont.obj)
            return z3.simplify(z3.Or([self.eq(item, self.lift(k)) for k in keys])) if keys else z3.BoolVal(False)
        if isinstance(cont, VTuple):
            return z3.simplify(z3.Or([self.eq(item, x) for x in cont.items]))
        if isinstance(cont, (VList, VSeq)):
            sq = self.as_seq(cont)
            n = z3.simplify(sq.len)
            if z3.is_int_value(n):
                return z3.simplify(z3.Or([self.eq(item, sq.get(z3.IntVal(i))) for i in range(n.as_long())]))
            i = st.fresh('i', z3.IntSort())
            return z3.Exists([i], z3.And(i >= 0, i < n, self.eq(item, sq.get(i))))
        raise Unsupported('membership in %r' % (cont,))

    def e_List(self, node):
        items = [self.eval(e) for e in node.elts]
        items = [self.func_as_value(i) for i in items]
        return self.make_list(items)

    def func_as_value(self, v):
        return v

    def e_Tuple(self, node):
        return VTuple([self.eval(e) for e in node.elts])

    def e_Dict(self, node):
        st = self.st
        if st.spec:
            raise Unsupported('dict literal in spec')
        if not node.keys:
            r = st.new_ref()
            st.hset('DOM', DOM_SORT, r, z3.K(z3.IntSort(), z3.BoolVal(False)))
            return VRef(r, '{}')
        r = st.new_ref()
        # the record class of a literal: the unique declared record shape that has all its keys (None: decided at the store)
        lit_keys = [k.value for k in node.keys if isinstance(k, ast.Constant) and isinstance(k.value, str)]
        cands = sorted(set(c for (c, kk) in self.schema.keys if c is not None
                           and all((c, k2) in self.schema.keys for k2 in lit_keys)))
        rec = VRef(r, cands[0] if (len(cands) == 1 and len(lit_keys) == len(node.keys)) else None)
        present = set()
        for k, vn in zip(node.keys, node.values):
            kv = self.eval(k)
            if not isinstance(kv, VStr):
                raise Unsupported('dict literal with non-string-constant key (line %s)' % st.cur_line)
            self.rec_store(rec, kv.s, self.eval(vn))
            present.add(kv.s)
        # a new dict holds exactly the keys of the literal: clear the presence flag of every other declared key
        for k in sorted(set(kk for (c, kk) in self.schema.keys)):
            if k not in present:
                st.hset('k:%s#has' % k, z3.IntSort(), r, z3.IntVal(0))
        return rec

    def e_JoinedStr(self, node):
        parts = []
        for v in node.values:
            if isinstance(v, ast.Constant):
                parts.append(self.eng.str_id(v.value))
            else:
                val = self.eval(v.value)
                parts.append(self.opaque_str_of(val))
        f = self.eng.ufun('fstr%d' % len(parts), len(parts))
        return VSymStr(f(*parts))

    def opaque_str_of(self, v):
        v = self.concretize(v)
        if isinstance(v, VStr):
            return self.eng.str_id(v.s)
        if isinstance(v, VSymStr):
            return v.t
        if isinstance(v, (VInt, VBool)):
            return self.eng.ufun('str_int', 1)(self.ar.to_index(self.to_int(v)))
        if isinstance(v, VEnum):
            return self.eng.ufun('str_enum', 1)(v.t)
        if isinstance(v, VRef):
            return self.eng.ufun('str_ref', 1)(v.t)
        if isinstance(v, VNone):
            return self.eng.str_id('None')
        if isinstance(v, VReal):
            return self.eng.ufun('str_real', 1)(z3.ToInt(v.t))
        return self.eng.str_id('<%s>' % type(v).__name__)

    def e_Lambda(self, node):
        return VLambda(node, dict(self.st.locals))

    def e_Starred(self, node):
        raise Unsupported('starred')

    # ----- attribute
    def mangle(self, attr):
        if attr.startswith('__') and not attr.endswith('__'):
            cls = self.st.frames[-1].cls
            if cls:
                return '_' + cls.split('.')[-1].lstrip('_') + attr
        return attr

    def e_Attribute(self, node):
        obj = self.eval(node.value)
        return self.getattr(obj, self.mangle(node.attr), node)

    def getattr(self, obj, attr, node=None):
        st = self.st
        if isinstance(obj, VUnion):
            if st.spec:
                alts = [(c, a) for c, a in flatten_union(obj) if not isinstance(a, VNone)]
                if len(alts) == 1:
                    return self.getattr(alts[0][1], attr, node)
            obj = self.concretize(obj)
        if isinstance(obj, VNone):
            if st.spec:
                raise EngineError('attribute %s of None in spec (line %s)' % (attr, st.cur_line))
            raise PyRaise(VExc('AttributeError', (VStr("'NoneType' object has no attribute '%s'" % attr),)))
        if isinstance(obj, VRef):
            if obj.old:
                raise EngineError('field access through a reference produced by old(): wrap the whole expression in old() (line %s)' % st.cur_line)
            if obj.cls == 'Event':
                return self.event_attr(obj, attr)
            ci = self.repo.find_class(obj.cls) if obj.cls else None
            if ci is not None:
                if attr in ci.getters:
                    return self.call_function(ci.getters[attr], [obj], {})
                T_ = self.schema.field_type(obj.cls, attr)
                if T_ is not None:
                    return field_load(st, 'a:%s.%s' % (obj.cls, attr), T_, obj.t)
                if attr in ci.methods:
                    return VBound(obj, ci.methods[attr])
                pref = '_' + ci.short.lstrip('_') + '__'
                if attr.startswith(pref) and attr[len(pref) - 2:] in ci.methods:
                    return VBound(obj, ci.methods[attr[len(pref) - 2:]])
                if attr in ci.consts:
                    return self.lift(ci.consts[attr])
                if attr in ci.nested:
                    return VClass(ci.nested[attr])
                raise EngineError('attribute %s.%s has no declared shape (line %s)' % (obj.cls, attr, st.cur_line))
            T_ = self.schema.field_type(obj.cls, attr) if obj.cls else None
            if T_ is not None:
                return field_load(st, 'a:%s.%s' % (obj.cls, attr), T_, obj.t)
            if obj.cls and (obj.cls, attr) in self.schema.ext_methods:
                return VBuiltin(('ext', obj, attr))
            if attr in ('get', 'copy', 'keys', 'items', 'values', 'pop'):
                return VBuiltin(('m', obj, attr))
            raise EngineError('attribute %s on object of unknown/undeclared class %r (line %s)' % (attr, obj.cls, st.cur_line))
        if isinstance(obj, VClass):
            ci = obj.info
            if ci.is_enum:
                if attr in ci.enum_members:
                    return VEnum(ci.name, z3.IntVal(ci.enum_members[attr]))
                raise EngineError('enum %s has no member %s' % (ci.name, attr))
            if attr in ci.consts:
                return self.lift(ci.consts[attr])
            if attr in ci.nested:
                return VClass(ci.nested[attr])
            if attr in ci.methods:
                return VBuiltin(('unbound', ci.methods[attr]))
            raise EngineError('class %s has no constant %s (line %s)' % (ci.name, attr, st.cur_line))
        if isinstance(obj, VModule):
            return self.module_attr(obj, attr)
        if isinstance(obj, VEnum):
            if attr == 'value':
                return self.from_idx(obj.t)
            raise Unsupported('enum attribute ' + attr)
        if isinstance(obj, (VList, VSeq, VInt, VKwargs, VQueue, VTable, VStr, VSymStr, VConst)) or type(obj).__name__ == 'VNp':
            return VBuiltin(('m', obj, attr))
        if isinstance(obj, VBuiltin) and obj.name == 'int' and attr == 'from_bytes':
            return VBuiltin('int.from_bytes')
        if isinstance(obj, VExc) and attr == 'args':
            return VTuple(obj.args)
        raise Unsupported('attribute %s of %r (line %s)' % (attr, obj, st.cur_line))

    def module_attr(self, mod, attr):
        if mod.name == 'j1939':
            ci = self.repo.find_class(attr)
            if ci is not None:
                return VClass(ci)
            for m, mc in self.repo.module_consts.items():
                if attr in mc:
                    return self.lift(mc[attr])
            raise EngineError('j1939.%s not found' % attr)
        if mod.name == 'spec':
            if attr in self.eng.spec_funcs:
                return VBuiltin('specfn.' + attr)
            if attr in self.eng.spec_consts:
                return self.lift(self.eng.spec_consts[attr])
            raise EngineError('spec.%s not found' % attr)
        if mod.name == 'queue' and attr == 'Empty':
            return VBuiltin('exc.Empty')
        return VBuiltin('%s.%s' % (mod.name, attr))

    def event_attr(self, ev, attr):
        st = self.st
        H = st.cur_heap()
        if attr == 'fn':
            return VFunc(st.hget_in(H, 'T:fn', z3.IntSort(), ev.t))
        if attr == 'n':
            return VInt(self.ar.from_index(st.hget_in(H, 'T:n', z3.IntSort(), ev.t)))
        import re as _re
        m = _re.match(r'^([irlfbo])(\d+|_\w+)$', attr)
        if m and st.spec:
            # typed accessors: the argument as int / real / list / func / bool / object, with the tag as definedness guard
            kind, slot = m.group(1), m.group(2)
            slot = ('a' + slot) if slot[0].isdigit() else ('k' + slot)
            tag = st.hget_in(H, 'T:%s#tag' % slot, z3.IntSort(), ev.t)
            if kind == 'l':
                st.defined.append(tag == self.eng.LIST_TAG)
                return self.eng.event_seq(st, slot, ev.t)
            want = {'i': (VInt,), 'r': (VReal,), 'f': (VFunc,), 'b': (VBool,), 'o': (VRef,)}[kind]
            u = field_load(st, 'T:' + slot, self.eng.T_ANY, ev.t)
            for c, a in flatten_union(u):
                if isinstance(a, want):
                    st.defined.append(c)
                    if isinstance(a, VRef):
                        a = self.event_obj(ev, slot, a)
                    return a
            raise EngineError('typed event accessor ' + attr)
        u = field_load(st, 'T:' + attr, self.eng.T_ANY, ev.t)
        alts = []
        for c, a in flatten_union(u):
            if isinstance(a, VList):
                a = self.eng.event_seq(st, attr, ev.t)
            elif isinstance(a, VRef):
                a = self.event_obj(ev, attr, a)
            alts.append((c, a))
        return VUnion(alts)

    def event_obj(self, ev, slot, a):
        """object argument of an event: recover its class when the recorded class id is concrete"""
        st = self.st
        cid = st.hget_in(st.cur_heap(), 'T:%s#cls' % slot, z3.IntSort(), ev.t)
        if z3.is_int_value(cid):
            for name, k in self.eng.cls_ids.items():
                if k == cid.as_long():
                    return VRef(a.t, name)
        return a

    # ----- records (str-keyed dicts)
    def rec_has(self, rec, key):
        st = self.st
        t = st.hget_in(st.cur_heap(), 'k:%s#has' % key, z3.IntSort(), rec.t)
        base = st.H0.get('k:%s#has' % key)
        if base is not None and not z3.is_int_value(rec.t):
            pass
        if base is not None:
            # unallocated memory holds no keys
            st.pc_fact(z3.Implies(rec.t >= FRESH_REF_BASE, z3.Select(base, rec.t) == 0))
        return z3.simplify(t != 0)

    def rec_key_type(self, rec, key, v=None):
        T_ = self.schema.key_type(rec.cls, key)
        if T_ is None and rec.cls is None and v is not None:
            # record literal of a class not known yet: pick the declared key type that fits the value
            cands = [t for (c, k), t in self.schema.keys.items() if k == key]
            fits = []
            for t in cands:
                if type_accepts(t, self.concretize_peek(v)):
                    vv = self.concretize_peek(v)
                    if isinstance(t, TList) and isinstance(vv, VList) and repr(t.elem) != repr(vv.elem):
                        continue
                    fits.append(t)
            kinds = set(repr(t) for t in fits)
            if len(kinds) == 1:
                T_ = fits[0]
        if T_ is None:
            raise EngineError('record key %r (record class %r) has no declared shape (line %s)' % (key, rec.cls, self.st.cur_line))
        return T_

    def concretize_peek(self, v):
        if isinstance(v, VUnion):
            alts = [a for c, a in flatten_union(v) if not isinstance(a, VNone)]
            return alts[0] if alts else VNone()
        return v

    def rec_load(self, rec, key, check=True):
        st = self.st
        if check and not st.spec:
            has = self.rec_has(rec, key)
            if not st.valid(has):
                if not st.branch_bool(has, 'haskey'):
                    raise PyRaise(VExc('KeyError', (VStr(key),)))
        T_ = self.rec_key_type(rec, key)
        return field_load(st, 'k:' + key, T_, rec.t)

    def rec_store(self, rec, key, v):
        st = self.st
        T_ = self.rec_key_type(rec, key, v)
        v = self.coerce_store(T_, v)
        field_store(st, 'k:' + key, T_, rec.t, v)
        st.hset('k:%s#has' % key, z3.IntSort(), rec.t, z3.IntVal(1))
        if isinstance(v, VList):
            # ghost: the record a list was last stored into (ownership, used by class invariants)
            st.hset('G:own', z3.IntSort(), v.t, rec.t)

    def coerce_store(self, T_, v):
        """conversions applied when a value is stored into a typed slot"""
        if isinstance(v, VRef) and v.cls == '{}':
            if isinstance(T_, TTable):
                return VTable(v.t, T_.val)
            if isinstance(T_, TRef):
                return VRef(v.t, T_.cls)
        if isinstance(T_, TRef) and isinstance(v, VRef) and v.cls is None:
            return VRef(v.t, T_.cls)
        if isinstance(T_, TList) and isinstance(v, VSeq):
            return self.materialize(v)
        if isinstance(T_, TList) and isinstance(v, VConst) and isinstance(v.obj, (list, tuple)):
            return self.make_list([self.lift(x) for x in v.obj])
        if isinstance(T_, TOpt):
            if isinstance(v, VNone):
                return v
            if isinstance(v, VUnion):
                return VUnion([(c, self.coerce_store(T_, a)) for c, a in flatten_union(v)])
            return self.coerce_store(T_.base, v)
        return v

    # ----- subscript
    def e_Subscript(self, node):
        obj = self.eval(node.value)
        if isinstance(node.slice, ast.Slice):
            return self.get_slice(obj, node.slice)
        key = self.eval(node.slice)
        return self.getitem(obj, key)

    def get_slice(self, obj, sl):
        st = self.st
        if sl.step is not None:
            raise Unsupported('slice step')
        lo = self.idx(self.eval(sl.lower)) if sl.lower is not None else None
        hi = self.idx(self.eval(sl.upper)) if sl.upper is not None else None
        obj = self.concretize(obj)
        if isinstance(obj, VNone):
            raise self.type_error("'NoneType' object is not subscriptable")
        sq = self.slice_seq(obj, lo, hi)
        if st.spec:
            return sq
        return self.materialize(sq)

    def getitem(self, obj, key):
        st = self.st
        if isinstance(obj, VTrace):
            i = z3.simplify(self.idx(key))
            if z3.is_int_value(i) and i.as_long() < 0:
                i = z3.simplify(st.tlen() + i)
            return VRef(i, 'Event')
        if st.spec and isinstance(obj, VQueue):
            # specification view of a queue: its items in FIFO order
            obj = VList(obj.t, obj.elem)
        if isinstance(key, VStr):
            obj = self.concretize(obj, (VRef, VKwargs, VConst))
        else:
            obj = self.concretize(obj, (VList, VSeq, VTable, VTuple, VConst))
        if isinstance(obj, VNone):
            raise self.type_error("'NoneType' object is not subscriptable")
        if isinstance(obj, (VList, VSeq)):
            i = self.idx(key)
            n = list_len(st, obj)
            if st.spec:
                # spec indexing is mathematical; only literal negative constants count from the end
                ci = z3.simplify(i)
                i2 = z3.simplify(ci + n) if (z3.is_int_value(ci) and ci.as_long() < 0) else ci
                return list_get(st, obj, i2)
            ok = z3.And(i >= -n, i < n)
            if not st.valid(ok):
                if not st.branch_bool(ok, 'index'):
                    raise PyRaise(VExc('IndexError', (VStr('list index out of range'),)))
            ci = z3.simplify(i)
            if z3.is_int_value(ci) and ci.as_long() >= 0:
                i2 = ci
            elif st.valid(i >= 0):
                i2 = i
            else:
                i2 = z3.simplify(z3.If(i < 0, i + n, i))
            return list_get(st, obj, i2)
        if isinstance(obj, VTable):
            k = self.idx(key)
            if not st.spec:
                has = table_has(st, obj, k)
                if not st.valid(has):
                    if not st.branch_bool(has, 'tablekey'):
                        raise PyRaise(VExc('KeyError', (key,)))
                self.eng.instantiate_kf(self, obj, k)
            return table_get(st, obj, k)
        if isinstance(obj, VRef):
            if obj.old:
                raise EngineError('key access through a reference produced by old(): wrap the whole expression in old() (line %s)' % st.cur_line)
            if isinstance(key, VStr):
                return self.rec_load(obj, key.s)
            if obj.cls == '{}':
                raise PyRaise(VExc('KeyError', (key,)))
            raise Unsupported('record subscript with non-constant key (line %s)' % st.cur_line)
        if isinstance(obj, VTuple):
            ci = z3.simplify(self.idx(key))
            if z3.is_int_value(ci):
                k = ci.as_long()
                if -len(obj.items) <= k < len(obj.items):
                    return obj.items[k]
                raise PyRaise(VExc('IndexError'))
            return self.ite_chain(ci, list(obj.items))
        if isinstance(obj, VKwargs):
            if isinstance(key, VStr):
                if key.s in obj.d:
                    return obj.d[key.s]
                raise PyRaise(VExc('KeyError', (key,)))
            raise Unsupported('kwargs subscript')
        if isinstance(obj, VConst):
            return self.const_index(obj, key)
        raise Unsupported('subscript on %r (line %s)' % (obj, st.cur_line))

    def const_index(self, c, key):
        """index a concrete python dict/list with a possibly symbolic key"""
        st = self.st
        obj = c.obj
        key = self.concretize(key)
        if isinstance(key, VStr):
            if isinstance(obj, dict) and key.s in obj:
                return self.lift(obj[key.s])
            raise PyRaise(VExc('KeyError', (key,)))
        kt = z3.simplify(self.idx(key))
        if isinstance(obj, dict):
            keys = [k for k in obj if isinstance(k, int) and not isinstance(k, bool)]
            if z3.is_int_value(kt):
                k = kt.as_long()
                if k in obj:
                    return self.lift(obj[k])
                raise PyRaise(VExc('KeyError', (key,)))
            if not st.spec:
                ok = z3.Or([kt == k for k in keys])
                if not st.valid(ok):
                    if not st.branch_bool(ok, 'constkey'):
                        raise PyRaise(VExc('KeyError', (key,)))
            vals = [self.lift(obj[k]) for k in keys]
            return self.merge_const_vals(kt, keys, vals)
        if isinstance(obj, (list, tuple)):
            n = len(obj)
            if z3.is_int_value(kt):
                k = kt.as_long()
                if -n <= k < n:
                    return self.lift(obj[k])
                raise PyRaise(VExc('IndexError'))
            if not st.spec:
                ok = z3.And(kt >= 0, kt < n)
                if not st.valid(ok):
                    if st.feasible(kt < 0):
                        raise Unsupported('negative symbolic index into constant list')
                    if not st.branch_bool(ok, 'constidx'):
                        raise PyRaise(VExc('IndexError'))
            vals = [self.lift(x) for x in obj]
            return self.merge_const_vals(kt, list(range(n)), vals)
        raise Unsupported('const index')

    def merge_const_vals(self, kt, keys, vals):
        # lists of equal length -> tuple of merged components
        if all(isinstance(v, VConst) and isinstance(v.obj, (list, tuple)) for v in vals):
            n = len(vals[0].obj)
            if all(len(v.obj) == n for v in vals):
                comps = []
                for j in range(n):
                    comps.append(self.merge_const_vals(kt, keys, [self.lift(v.obj[j]) for v in vals]))
                return VTuple(comps)
        r = vals[-1]
        for k, v in zip(reversed(keys[:-1]), reversed(vals[:-1])):
            r = self.ite(kt == k, v, r)
        return r

    # ------------------------------------------------------------------
    # calls
    # ------------------------------------------------------------------
    def e_Call(self, node):
        st = self.st
        fnode = node.func
        # dropped: logger.*(...) and print(...)
        if isinstance(fnode, ast.Attribute) and isinstance(fnode.value, ast.Name) and fnode.value.id == 'logger':
            return VNone()
        if isinstance(fnode, ast.Name) and fnode.id == 'print':
            return VNone()
        # spec builtins that need unevaluated arguments
        if st.spec and isinstance(fnode, ast.Name) and fnode.id in ('old', 'forall', 'exists', 'at_entry', 'keys_forall', 'unchanged', 'count', 'implies', 'ite', 'iff', 'at_head'):
            return self.eng.spec_special(self, fnode.id, node)
        f = self.eval(fnode)
        args = []
        for a in node.args:
            if isinstance(a, ast.Starred):
                raise Unsupported('*args')
            args.append(self.eval(a))
        kwargs = {}
        for kw in node.keywords:
            if kw.arg is None:
                raise Unsupported('**kwargs call')
            kwargs[kw.arg] = self.eval(kw.value)
        if hasattr(node, 'lineno') and not st.spec:
            st.cur_line = node.lineno
        return self.call(f, args, kwargs, node)

    def call(self, f, args, kwargs, node=None):
        st = self.st
        f = self.concretize(f, (VFunc, VBound, VBuiltin, VClass, VLambda))
        if isinstance(f, VBuiltin):
            return self.eng.call_builtin(self, f, args, kwargs, node)
        if isinstance(f, VBound):
            return self.call_function(f.qual, [f.recv] + args, kwargs)
        if isinstance(f, VClass):
            return self.construct(f.info, args, kwargs)
        if isinstance(f, VFunc):
            return self.eng.callout(self, f, args, kwargs, node)
        if isinstance(f, VLambda):
            return self.call_lambda(f, args)
        if isinstance(f, VNone):
            raise self.type_error("'NoneType' object is not callable")
        raise Unsupported('call of %r (line %s)' % (f, st.cur_line))

    def call_lambda(self, f, args):
        st = self.st
        names = [a.arg for a in f.node.args.args]
        if len(names) != len(args):
            raise EngineError('lambda arity')
        env = dict(f.env)
        env.update(zip(names, args))
        st.frames.append(Frame(st.frames[-1].func, env, st.frames[-1].cls))
        try:
            return self.eval(f.node.body)
        finally:
            st.frames.pop()

    def construct(self, ci, args, kwargs):
        st = self.st
        if ci.is_enum:
            raise Unsupported('enum construction')
        if ci.name in ('Exception',):
            return VExc(ci.name, tuple(args))
        r = st.new_ref()
        obj = VRef(r, ci.name)
        init = ci.methods.get('__init__')
        if init is not None:
            self.call_function(init, [obj] + args, kwargs)
        return obj

    def bind_args(self, fi, args, kwargs):
        a = fi.node.args
        names = [x.arg for x in a.posonlyargs + a.args]
        defaults = a.defaults
        env = {}
        if len(args) > len(names) and a.vararg is None:
            raise PyRaise(VExc('TypeError', (VStr('too many positional arguments for %s' % fi.qual),)))
        for n, v in zip(names, args):
            env[n] = v
        kw = dict(kwargs)
        for n in names[len(args):]:
            if n in kw:
                env[n] = kw.pop(n)
        for n, d in zip(names[len(names) - len(defaults):], defaults):
            if n not in env:
                env[n] = self.eval_default(fi, d)
        for kwo, d in zip(a.kwonlyargs, a.kw_defaults):
            if kwo.arg in kw:
                env[kwo.arg] = kw.pop(kwo.arg)
            elif d is not None:
                env[kwo.arg] = self.eval_default(fi, d)
        missing = [n for n in names if n not in env]
        if missing:
            raise PyRaise(VExc('TypeError', (VStr('missing arguments %s for %s' % (missing, fi.qual)),)))
        if a.kwarg is not None:
            env[a.kwarg.arg] = VKwargs(kw)
        elif kw:
            raise PyRaise(VExc('TypeError', (VStr('unexpected keyword arguments %s for %s' % (sorted(kw), fi.qual)),)))
        return env

    def eval_default(self, fi, d):
        st = self.st
        st.frames.append(Frame(fi, {}, fi.cls.name if fi.cls else None))
        try:
            return self.eval(d)
        finally:
            st.frames.pop()

    def call_function(self, fi, args, kwargs):
        """call of a repository function: by contract, opaque, or inlined"""
        return self.eng.call_repo_function(self, fi, args, kwargs)

    def inline(self, fi, args, kwargs):
        st = self.st
        env = self.bind_args(fi, args, kwargs)
        if self.call_depth > 12:
            raise Unsupported('inlining depth exceeded at %s' % fi.qual)
        st.frames.append(Frame(fi, env, fi.cls.name if fi.cls else None))
        self.call_depth += 1
        saved_line = st.cur_line
        try:
            self.exec_block(fi.node.body)
            return VNone()
        except ReturnEx as r:
            return r.v
        finally:
            self.call_depth -= 1
            st.frames.pop()
            st.cur_line = saved_line

    # ------------------------------------------------------------------
    # statements
    # ------------------------------------------------------------------
    def exec_block(self, stmts):
        for s in stmts:
            self.exec(s)

    def exec(self, node):
        if self.st.spec:
            raise EngineError('statement in spec mode')
        self.st.cur_line = node.lineno
        m = getattr(self, 'x_' + type(node).__name__, None)
        if m is None:
            raise Unsupported('statement %s (line %s)' % (type(node).__name__, node.lineno))
        return m(node)

    def x_Expr(self, node):
        if isinstance(node.value, ast.Constant):
            return      # docstring
        self.eval(node.value)

    def x_Pass(self, node):
        pass

    def x_Import(self, node):
        pass

    x_ImportFrom = x_Import

    def x_Assign(self, node):
        v = self.eval(node.value)
        for tgt in node.targets:
            self.assign(tgt, v)

    def x_AnnAssign(self, node):
        if node.value is not None:
            self.assign(node.target, self.eval(node.value))

    def x_AugAssign(self, node):
        # evaluate target once (object / index), then combine
        tgt = node.target
        if isinstance(tgt, ast.Name):
            cur = self.eval(tgt)
            self.assign(tgt, self.aug(node.op, cur, self.eval(node.value)))
        elif isinstance(tgt, ast.Attribute):
            obj = self.eval(tgt.value)
            cur = self.getattr(obj, self.mangle(tgt.attr))
            val = self.eval(node.value)
            self.setattr(obj, self.mangle(tgt.attr), self.aug(node.op, cur, val))
        elif isinstance(tgt, ast.Subscript):
            obj = self.eval(tgt.value)
            key = self.eval(tgt.slice)
            cur = self.getitem(obj, key)
            val = self.eval(node.value)
            self.setitem(obj, key, self.aug(node.op, cur, val))
        else:
            raise Unsupported('augassign target')

    def aug(self, op, cur, val):
        cur = self.concretize(cur)
        if isinstance(op, ast.Add) and isinstance(cur, VList):
            self.list_extend(cur, val)
            return cur
        return self.binop(op, cur, val)

    def assign(self, tgt, v):
        st = self.st
        if isinstance(tgt, ast.Name):
            st.locals[tgt.id] = v
        elif isinstance(tgt, ast.Attribute):
            obj = self.eval(tgt.value)
            self.setattr(obj, self.mangle(tgt.attr), v)
        elif isinstance(tgt, ast.Subscript):
            obj = self.eval(tgt.value)
            if isinstance(tgt.slice, ast.Slice):
                raise Unsupported('slice assignment')
            key = self.eval(tgt.slice)
            self.setitem(obj, key, v)
        elif isinstance(tgt, (ast.Tuple, ast.List)):
            v = self.concretize(v)
            items = self.unpack(v, len(tgt.elts))
            for t, x in zip(tgt.elts, items):
                self.assign(t, x)
        else:
            raise Unsupported('assignment target %s' % type(tgt).__name__)

    def unpack(self, v, n):
        st = self.st
        if isinstance(v, VTuple):
            if len(v.items) != n:
                raise PyRaise(VExc('ValueError', (VStr('unpack'),)))
            return list(v.items)
        if isinstance(v, VConst) and isinstance(v.obj, (list, tuple)):
            if len(v.obj) != n:
                raise PyRaise(VExc('ValueError', (VStr('unpack'),)))
            return [self.lift(x) for x in v.obj]
        if isinstance(v, (VList, VSeq)):
            ln = list_len(st, v)
            if not st.valid(ln == n):
                if not st.branch_bool(ln == n, 'unpack'):
                    raise PyRaise(VExc('ValueError', (VStr('unpack'),)))
            return [list_get(st, v, z3.IntVal(i)) for i in range(n)]
        raise Unsupported('unpack of %r' % (v,))

    def setattr(self, obj, attr, v):
        st = self.st
        obj = self.concretize(obj)
        if isinstance(obj, VNone):
            raise PyRaise(VExc('AttributeError'))
        if not isinstance(obj, VRef):
            raise Unsupported('setattr on %r' % (obj,))
        ci = self.repo.find_class(obj.cls) if obj.cls else None
        if ci is not None and attr in ci.setters:
            self.call_function(ci.setters[attr], [obj, v], {})
            return
        T_ = self.schema.field_type(obj.cls, attr)
        if T_ is None:
            raise EngineError('attribute %s.%s has no declared shape (line %s)' % (obj.cls, attr, st.cur_line))
        v = self.coerce_store(T_, v)
        field_store(st, 'a:%s.%s' % (obj.cls, attr), T_, obj.t, v)
        if isinstance(v, VList):
            # ghost: the object a list was last stored into (ownership, used by class invariants)
            st.hset('G:own', z3.IntSort(), v.t, obj.t)

    def setitem(self, obj, key, v):
        st = self.st
        obj = self.concretize(obj)
        if isinstance(obj, VList):
            i = self.idx(key)
            n = list_len(st, obj)
            ok = z3.And(i >= -n, i < n)
            if not st.valid(ok):
                if not st.branch_bool(ok, 'index'):
                    raise PyRaise(VExc('IndexError', (VStr('list assignment index out of range'),)))
            i2 = i if st.valid(i >= 0) else z3.simplify(z3.If(i < 0, i + n, i))
            list_set_inner(st, obj, z3.Store(list_inner(st, obj), i2, elem_term(st, obj, v)))
            return
        if isinstance(obj, VTable):
            v = self.coerce_store(obj.val, v)
            table_put(st, obj, self.idx(key), v)
            return
        if isinstance(obj, VRef):
            if isinstance(key, VStr):
                self.rec_store(obj, key.s, v)
                return
            raise Unsupported('record store with non-constant key (line %s)' % st.cur_line)
        if isinstance(obj, VNone):
            raise self.type_error("'NoneType' object does not support item assignment")
        raise Unsupported('setitem on %r' % (obj,))

    def x_Delete(self, node):
        st = self.st
        for tgt in node.targets:
            if isinstance(tgt, ast.Subscript):
                obj = self.concretize(self.eval(tgt.value))
                key = self.eval(tgt.slice)
                if isinstance(obj, VTable):
                    k = self.idx(key)
                    has = table_has(st, obj, k)
                    if not st.valid(has):
                        if not st.branch_bool(has, 'delkey'):
                            raise PyRaise(VExc('KeyError', (key,)))
                    table_del(st, obj, k)
                    continue
                if isinstance(obj, VRef) and isinstance(key, VStr):
                    has = self.rec_has(obj, key.s)
                    if not st.valid(has):
                        if not st.branch_bool(has, 'delkey'):
                            raise PyRaise(VExc('KeyError', (key,)))
                    st.hset('k:%s#has' % key.s, z3.IntSort(), obj.t, z3.IntVal(0))
                    continue
                if isinstance(obj, VList) and not isinstance(tgt.slice, ast.Slice):
                    # del xs[i]
                    i = self.idx(key)
                    n = list_len(st, obj)
                    ok = z3.And(i >= -n, i < n)
                    if not st.valid(ok):
                        if not st.branch_bool(ok, 'index'):
                            raise PyRaise(VExc('IndexError', (VStr('list assignment index out of range'),)))
                    if not st.valid(i >= 0):
                        i = z3.simplify(z3.If(i < 0, i + n, i))
                    self.list_remove_at(obj, i)
                    continue
            elif isinstance(tgt, ast.Name):
                st.locals[tgt.id] = None
                continue
            raise Unsupported('del target (line %s)' % node.lineno)

    @staticmethod
    def _only_dropped(stmts):
        """the block consists of statements the extraction drops (print / logger calls) only"""
        for s_ in stmts:
            if not (isinstance(s_, ast.Expr) and isinstance(s_.value, ast.Call)):
                return False
            f_ = s_.value.func
            if isinstance(f_, ast.Name) and f_.id == 'print':
                continue
            if isinstance(f_, ast.Attribute) and isinstance(f_.value, ast.Name) and f_.value.id == 'logger':
                continue
            return False
        return bool(stmts)

    @staticmethod
    def _simple_test(e):
        """a condition over local names and constants only: evaluating it cannot raise or have an effect"""
        for n_ in ast.walk(e):
            if not isinstance(n_, (ast.BoolOp, ast.And, ast.Or, ast.Compare, ast.Name, ast.Constant, ast.Load, ast.UnaryOp, ast.Not,
                                   ast.Eq, ast.NotEq, ast.Lt, ast.LtE, ast.Gt, ast.GtE)):
                return False
        return True

    def x_If(self, node):
        if not node.orelse and self._only_dropped(node.body) and self._simple_test(node.test):
            # diagnostics only (dropped by the extraction): no need to split the path on the condition
            return
        c = self.truth(self.eval(node.test))
        if self.st.branch_bool(c, 'if'):
            self.exec_block(node.body)
        else:
            self.exec_block(node.orelse)

    def x_Return(self, node):
        raise ReturnEx(self.eval(node.value) if node.value is not None else VNone())

    def x_Break(self, node):
        raise BreakEx()

    def x_Continue(self, node):
        raise ContinueEx()

    def x_Raise(self, node):
        if node.exc is None:
            exc = self.st.ghost.get('cur_exc')
            if exc is None:
                raise Unsupported('bare raise outside except')
            raise PyRaise(exc)
        v = self.concretize(self.eval(node.exc))
        if isinstance(v, VBuiltin) and isinstance(v.name, str) and v.name.startswith('exc.'):
            v = VExc(v.name[4:], ())
        if not isinstance(v, VExc):
            raise Unsupported('raise of %r (line %s)' % (v, node.lineno))
        raise PyRaise(v)

    def x_Assert(self, node):
        c = self.truth(self.eval(node.test))
        if not self.st.branch_bool(c, 'assert'):
            raise PyRaise(VExc('AssertionError'))

    def x_Try(self, node):
        st = self.st
        if node.finalbody:
            try:
                self._try_core(node)
            except (PyRaise, ReturnEx, BreakEx, ContinueEx):
                self.exec_block(node.finalbody)
                raise
            self.exec_block(node.finalbody)
        else:
            self._try_core(node)

    def _try_core(self, node):
        st = self.st
        try:
            self.exec_block(node.body)
        except PyRaise as pr:
            for h in node.handlers:
                if self.handler_matches(h, pr.exc):
                    if h.name:
                        st.locals[h.name] = pr.exc
                    saved = st.ghost.get('cur_exc')
                    st.ghost['cur_exc'] = pr.exc
                    try:
                        self.exec_block(h.body)
                    finally:
                        st.ghost['cur_exc'] = saved
                    return
            raise
        else:
            self.exec_block(node.orelse)

    def handler_matches(self, h, exc):
        if h.type is None:
            return True
        names = []
        if isinstance(h.type, ast.Tuple):
            for e in h.type.elts:
                names.append(ast.unparse(e))
        else:
            names.append(ast.unparse(h.type))
        for n in names:
            if exc_isinstance(exc.cls, n.split('.')[-1]):
                return True
        return False

    def x_With(self, node):
        raise Unsupported('with statement (line %s)' % node.lineno)

    def x_Match(self, node):
        st = self.st
        subj = self.eval(node.subject)
        for case in node.cases:
            pat = case.pattern
            if case.guard is not None:
                raise Unsupported('match guard')
            if isinstance(pat, ast.MatchAs) and pat.pattern is None:
                if pat.name:
                    st.locals[pat.name] = subj
                self.exec_block(case.body)
                return
            if isinstance(pat, ast.MatchValue):
                c = self.eq(subj, self.eval(pat.value))
                if st.branch_bool(c, 'match'):
                    self.exec_block(case.body)
                    return
                continue
            if isinstance(pat, ast.MatchSingleton):
                c = self.is_(subj, self.lift(pat.value))
                if st.branch_bool(c, 'match'):
                    self.exec_block(case.body)
                    return
                continue
            raise Unsupported('match pattern %s' % type(pat).__name__)

    def x_While(self, node):
        self.eng.exec_loop(self, node)

    def x_For(self, node):
        self.eng.exec_loop(self, node)

    def x_FunctionDef(self, node):
        raise Unsupported('nested function definition')

    def x_Global(self, node):
        raise Unsupported('global')

    # ----- list mutation helpers (code mode)
    def list_append(self, L, v):
        st = self.st
        n = list_len(st, L)
        list_set_inner(st, L, z3.Store(list_inner(st, L), n, elem_term(st, L, v)))
        list_set_len(st, L, z3.simplify(n + 1))

    def list_extend(self, L, other):
        st = self.st
        other = self.concretize(other)
        if isinstance(other, VUnion):
            other = self.concretize(other)
        sq = self.as_seq(other)
        m = z3.simplify(sq.len)
        n = list_len(st, L)
        if z3.is_int_value(m) and m.as_long() <= 70:
            inner = list_inner(st, L)
            for k in range(m.as_long()):
                inner = z3.Store(inner, z3.simplify(n + k), elem_term(st, L, sq.get(z3.IntVal(k))))
            list_set_inner(st, L, inner)
        else:
            i = z3.Int('li!%d' % next(st.fresh_counter))
            old_inner = list_inner(st, L)
            body = z3.If(i < n, z3.Select(old_inner, i), elem_term(st, L, sq.get(i - n)))
            list_set_inner(st, L, z3.Lambda([i], body))
        list_set_len(st, L, z3.simplify(n + m))

    def list_insert(self, L, pos, v):
        st = self.st
        n = list_len(st, L)
        p = self.idx(pos)
        p = z3.simplify(z3.If(p < 0, z3.If(p + n < 0, 0, p + n), z3.If(p > n, n, p)))
        i = z3.Int('li!%d' % next(st.fresh_counter))
        old_inner = list_inner(st, L)
        body = z3.If(i < p, z3.Select(old_inner, i), z3.If(i == p, elem_term(st, L, v), z3.Select(old_inner, i - 1)))
        list_set_inner(st, L, z3.Lambda([i], body))
        list_set_len(st, L, z3.simplify(n + 1))

    def list_remove_at(self, L, p):
        st = self.st
        n = list_len(st, L)
        i = z3.Int('li!%d' % next(st.fresh_counter))
        old_inner = list_inner(st, L)
        body = z3.If(i < p, z3.Select(old_inner, i), z3.Select(old_inner, i + 1))
        list_set_inner(st, L, z3.Lambda([i], body))
        list_set_len(st, L, z3.simplify(n - 1))
