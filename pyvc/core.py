"""pyvc core: types, symbolic values, state, heap encoding, arithmetic modes.

Everything here is generic; nothing knows about j1939.
"""
import z3
import itertools

PARAM_REF_BASE = 500000      # parameter objects get concrete refs PARAM_REF_BASE+k
FRESH_REF_BASE = 1000000     # objects allocated during the call get refs >= FRESH_REF_BASE
# refs loaded from the symbolic pre-state heap are constrained to (0, PARAM_REF_BASE) (0 == None)


class EngineError(Exception):
    """checker error (exit 3): unsupported construct, bad contract, internal inconsistency"""


class Unsupported(EngineError):
    pass


class PathEnd(Exception):
    """current path is finished (cut point reached, or assume(False))"""


# ---------------------------------------------------------------------------
# static types (used for heap slots, parameters and list elements)
# ---------------------------------------------------------------------------
class T:
    single = True       # fits in one Int/Real slot

    def __repr__(self):
        return self.__class__.__name__[1:].lower()


class TInt(T):
    pass


class TBool(T):
    pass


class TReal(T):
    pass


class TNone(T):
    pass


class TStr(T):          # opaque / symbolic string id
    pass


class TFunc(T):
    """callable; ret: static type of the result (None: unknown), pure: result is a function of the arguments"""
    def __init__(self, ret=None, pure=False):
        self.ret = ret
        self.pure = pure


class TRef(T):
    def __init__(self, cls):
        self.cls = cls

    def __repr__(self):
        return 'ref(%s)' % self.cls


class TEnum(T):
    def __init__(self, cls):
        self.cls = cls

    def __repr__(self):
        return 'enum(%s)' % self.cls


class TList(T):
    def __init__(self, elem):
        self.elem = elem

    def __repr__(self):
        return 'list(%r)' % (self.elem,)


class TTable(T):
    """dict with int keys"""
    def __init__(self, val):
        self.val = val

    def __repr__(self):
        return 'table(%r)' % (self.val,)


class TQueue(T):
    def __init__(self, elem):
        self.elem = elem


class TTuple(T):
    single = False

    def __init__(self, *items):
        self.items = list(items)

    def __repr__(self):
        return 'tuple(%s)' % ','.join(map(repr, self.items))


class TOpt(T):
    def __init__(self, base):
        self.base = base
        self.single = isinstance(base, (TRef, TList, TTable, TFunc, TQueue))

    def __repr__(self):
        return 'opt(%r)' % (self.base,)


class TUnion(T):
    single = False

    def __init__(self, *alts):
        self.alts = list(alts)

    def __repr__(self):
        return 'union(%s)' % ','.join(map(repr, self.alts))


INT, BOOL, REAL, NONE, STR, FUNC = TInt(), TBool(), TReal(), TNone(), TStr(), TFunc()
OCTETS = TList(INT)
# a value of statically unknown type (cookies, call-out results, event arguments)
T_ANY = TUnion(NONE, INT, REAL, BOOL, TList(INT), TFunc(), TRef(None), STR)


# ---------------------------------------------------------------------------
# symbolic values
# ---------------------------------------------------------------------------
class V:
    pass


class VInt(V):
    """tz: number of low bits known to be zero (structural), used by the int-mode `|` rule"""
    __slots__ = ('t', 'tz', 'bits')

    def __init__(self, t, tz=0, bits=None):
        self.t = t
        self.tz = tz
        self.bits = bits    # python int: the value is non-negative and only these bit positions can be set (None: unknown)

    def __repr__(self):
        return 'VInt(%s)' % self.t


class VBool(V):
    __slots__ = ('t',)

    def __init__(self, t):
        self.t = t

    def __repr__(self):
        return 'VBool(%s)' % self.t


class VReal(V):
    __slots__ = ('t',)

    def __init__(self, t):
        self.t = t

    def __repr__(self):
        return 'VReal(%s)' % self.t


class VNone(V):
    def __repr__(self):
        return 'VNone'


class VStr(V):
    """concrete python string"""
    __slots__ = ('s',)

    def __init__(self, s):
        self.s = s

    def __repr__(self):
        return 'VStr(%r)' % self.s


class VSymStr(V):
    """opaque string (f-string result, str(x), ErrorInfo text): an Int id"""
    __slots__ = ('t',)

    def __init__(self, t):
        self.t = t


class VRef(V):
    """object or str-keyed record"""
    __slots__ = ('t', 'cls', 'old')

    def __init__(self, t, cls=None, old=False):
        self.t = t
        self.cls = cls
        self.old = old      # produced by old(): identity only, no field access (fields would be read in the wrong heap)

    def __repr__(self):
        return 'VRef(%s:%s)' % (self.t, self.cls)


class VList(V):
    """heap list / bytes / bytearray"""
    __slots__ = ('t', 'elem')

    def __init__(self, t, elem=None):
        self.t = t
        self.elem = elem if elem is not None else INT

    def __repr__(self):
        return 'VList(%s)' % self.t


class VSeq(V):
    """functional sequence (spec mode): length term + python function index-term -> V"""
    __slots__ = ('len', 'get', 'elem', 'kind', 'inner')

    def __init__(self, length, get, elem=None, kind=None, inner=None):
        self.len = length
        self.get = get
        self.elem = elem if elem is not None else INT
        self.kind = kind    # Int term or None
        self.inner = inner  # z3 array term when the sequence is backed by one (event arguments)


class VTrace(V):
    """the ghost trace of call-outs: a sequence of events indexed by position"""


class VTable(V):
    __slots__ = ('t', 'val')

    def __init__(self, t, val):
        self.t = t
        self.val = val


class VQueue(V):
    __slots__ = ('t', 'elem')

    def __init__(self, t, elem):
        self.t = t
        self.elem = elem


class VTuple(V):
    __slots__ = ('items',)

    def __init__(self, items):
        self.items = tuple(items)

    def __repr__(self):
        return 'VTuple%r' % (self.items,)


class VFunc(V):
    """opaque callable: Int id"""
    __slots__ = ('t', 'T')

    def __init__(self, t, T_=None):
        self.t = t
        self.T = T_


class VBound(V):
    """bound method of a repository class"""
    __slots__ = ('recv', 'qual')

    def __init__(self, recv, qual):
        self.recv = recv
        self.qual = qual


class VClass(V):
    __slots__ = ('info',)

    def __init__(self, info):
        self.info = info

    def __repr__(self):
        return 'VClass(%s)' % self.info.name


class VConst(V):
    """concrete python container constant (class-level LUT, list of str, dict int->str ...)"""
    __slots__ = ('obj',)

    def __init__(self, obj):
        self.obj = obj


class VModule(V):
    __slots__ = ('name',)

    def __init__(self, name):
        self.name = name


class VEnum(V):
    __slots__ = ('cls', 't')

    def __init__(self, cls, t):
        self.cls = cls
        self.t = t          # Int term: the member's value

    def __repr__(self):
        return 'VEnum(%s,%s)' % (self.cls, self.t)


class VUnion(V):
    """guarded choice between values of different engine types"""
    __slots__ = ('alts',)

    def __init__(self, alts):
        self.alts = alts    # list of (BoolRef, V)


class VKwargs(V):
    __slots__ = ('d',)

    def __init__(self, d):
        self.d = d


class VExc(V):
    __slots__ = ('cls', 'args')

    def __init__(self, cls, args=()):
        self.cls = cls
        self.args = args

    def __repr__(self):
        return 'VExc(%s)' % self.cls


class VBuiltin(V):
    __slots__ = ('name',)

    def __init__(self, name):
        self.name = name


class VLambda(V):
    __slots__ = ('node', 'env')

    def __init__(self, node, env):
        self.node = node
        self.env = env


class VRange(V):
    __slots__ = ('lo', 'hi')

    def __init__(self, lo, hi):
        self.lo = lo
        self.hi = hi


class VEnumerate(V):
    __slots__ = ('seq',)

    def __init__(self, seq):
        self.seq = seq


class PyRaise(Exception):
    """a Python exception propagating through the interpreted program"""
    def __init__(self, exc):
        self.exc = exc      # VExc


EXC_PARENTS = {
    'Exception': None, 'BaseException': None,
    'ArithmeticError': 'Exception', 'OverflowError': 'ArithmeticError', 'ZeroDivisionError': 'ArithmeticError',
    'LookupError': 'Exception', 'IndexError': 'LookupError', 'KeyError': 'LookupError',
    'ValueError': 'Exception', 'TypeError': 'Exception', 'AttributeError': 'Exception',
    'RuntimeError': 'Exception', 'AssertionError': 'Exception', 'RuntimeWarning': 'Exception',
    'NotImplementedError': 'RuntimeError', 'Empty': 'Exception', 'queue.Empty': 'Exception',
    'UnboundLocalError': 'Exception', 'StopIteration': 'Exception',
}


def exc_isinstance(cls, target):
    if target in ('queue.Empty',):
        target = 'Empty'
    if cls == 'queue.Empty':
        cls = 'Empty'
    while cls is not None:
        if cls == target:
            return True
        cls = EXC_PARENTS.get(cls, 'Exception' if cls != 'Exception' else None)
        if cls == 'BaseException':
            return target == 'BaseException'
    return False


# ---------------------------------------------------------------------------
# arithmetic mode
# ---------------------------------------------------------------------------
class Arith:
    """int mode: mathematical integers.  bv mode: signed W-bit vectors + no-overflow obligations."""

    def __init__(self, mode='int', width=48):
        assert mode in ('int', 'bv')
        self.mode = mode
        self.width = width
        self.sort = z3.IntSort() if mode == 'int' else z3.BitVecSort(width)

    def val(self, n):
        if self.mode == 'int':
            return z3.IntVal(n)
        if not (-(1 << (self.width - 1)) <= n < (1 << (self.width - 1))):
            raise Unsupported('constant %d does not fit bv width %d' % (n, self.width))
        return z3.BitVecVal(n, self.width)

    def const(self, name):
        return z3.Const(name, self.sort)

    def is_concrete(self, t):
        t = z3.simplify(t)
        return z3.is_int_value(t) or z3.is_bv_value(t)

    def as_long(self, t):
        t = z3.simplify(t)
        if z3.is_int_value(t):
            return t.as_long()
        if z3.is_bv_value(t):
            return t.as_signed_long()
        return None

    def to_index(self, t):
        """term usable as Int-sorted structural index/length"""
        if z3.is_int(t):
            return t
        c = self.as_long(t)
        if c is not None:
            return z3.IntVal(c)
        return z3.BV2Int(t, is_signed=True)

    def from_index(self, t):
        """Int-sorted structural term (length, index) as an int value: kept Int-sorted also in bv
        mode; operations unify sorts lazily (Interp.unify)"""
        if self.mode == 'int':
            return t
        c = self.as_long(t)
        if c is not None:
            return self.val(c)
        return t

    def force(self, t):
        """term of the arithmetic sort of this mode (for heap slots / list elements)"""
        if self.mode == 'int' or not z3.is_int(t):
            return t
        c = self.as_long(t)
        if c is not None:
            return self.val(c)
        return z3.Int2BV(t, self.width)


def py_trailing_zeros(n):
    if n == 0:
        return 10 ** 6
    k = 0
    while n & 1 == 0:
        n >>= 1
        k += 1
    return k


def mask_span(m):
    """m = contiguous ones in bits [lo, hi) -> (lo, hi) else None"""
    if m <= 0:
        return None
    lo = py_trailing_zeros(m)
    x = m >> lo
    if x & (x + 1) != 0:
        return None
    return lo, lo + x.bit_length()


# ---------------------------------------------------------------------------
# solver stack for feasibility pruning (incremental, mirrors the path condition)
# ---------------------------------------------------------------------------
RLIMIT_PRUNE = 2000000


class _Inc:
    """incremental solver whose assertion stack mirrors a path condition"""

    def __init__(self, timeout_ms):
        self.s = z3.Solver()
        # a deterministic resource limit decides (the same answer whatever the load of the machine: path enumeration by
        # re-execution needs reproducible feasibility answers); the wall-clock limit is only a backstop
        self.s.set('rlimit', RLIMIT_PRUNE)
        self.s.set('timeout', 120000)
        self.stack = []
        self.keep = []

    def sync(self, pc):
        n = 0
        for n in range(min(len(pc), len(self.stack)) + 1):
            if n >= len(pc) or n >= len(self.stack) or pc[n].get_id() != self.stack[n]:
                break
        while len(self.stack) > n:
            self.s.pop()
            self.stack.pop()
            self.keep.pop()
        for f in pc[n:]:
            self.s.push()
            self.s.add(f)
            self.stack.append(f.get_id())
            self.keep.append(f)

    def check(self, pc, extra):
        self.sync(pc)
        self.s.push()
        self.s.add(extra)
        r = self.s.check()
        self.s.pop()
        return str(r)


_QCACHE = {}


def has_quantifier(f):
    i = f.get_id()
    r = _QCACHE.get(i)
    if r is not None:
        return r[0]
    seen = set()
    stack = [f]
    found = False
    while stack:
        t = stack.pop()
        ti = t.get_id()
        if ti in seen:
            continue
        seen.add(ti)
        if z3.is_quantifier(t):
            found = True
            break
        stack.extend(t.children())
    _QCACHE[i] = (found, f)
    return found


import os as _os
FULL_PRUNE = _os.environ.get('PYVC_FULL_PRUNE', '0') == '1'


def term_size(t, limit=10 ** 9):
    """number of distinct sub-terms (stops counting at limit)"""
    seen = set()
    stack = [t]
    n = 0
    while stack and n < limit:
        x = stack.pop()
        i = x.get_id()
        if i in seen:
            continue
        seen.add(i)
        n += 1
        if z3.is_quantifier(x):
            stack.append(x.body())
        else:
            stack.extend(x.children())
    return n


_UQCACHE = {}


def has_user_quantifier(f):
    """contains a quantifier introduced by a contract clause (forall / exists / keys_forall: bound names q!...)"""
    i = f.get_id()
    r = _UQCACHE.get(i)
    if r is not None:
        return r[0]
    seen = set()
    stack = [f]
    found = False
    while stack:
        t = stack.pop()
        ti = t.get_id()
        if ti in seen:
            continue
        seen.add(ti)
        if z3.is_quantifier(t):
            if any(t.var_name(k).startswith('q!') for k in range(t.num_vars())):
                found = True
                break
            stack.append(t.body())
            continue
        stack.extend(t.children())
    _UQCACHE[i] = (found, f)
    return found


class SolverStack:
    """feasibility pruning: a quantifier-free approximation of the path condition first (fast, sound for
    'unsat'), the full path condition with a short budget second"""

    def __init__(self, timeout_ms=250):
        self.qf = _Inc(timeout_ms)
        self.full = _Inc(timeout_ms)
        self.n_checks = 0
        self.cache = {}

    def model_value(self, pc, term):
        """a candidate value of term: from a model of the quantifier-free part of the path condition first (cheap and
        deterministic), from the full path condition otherwise; the caller confirms the candidate with valid()"""
        self.n_checks += 1
        qpc = [f for f in pc if not has_quantifier(f)]
        self.qf.sync(qpc)
        if self.qf.s.check() == z3.sat:
            try:
                return self.qf.s.model().eval(term, model_completion=True)
            except Exception:
                pass
        self.full.sync(pc)
        if self.full.s.check() != z3.sat:
            return None
        try:
            return self.full.s.model().eval(term, model_completion=True)
        except Exception:
            return None

    def check(self, pc, extra):
        """returns 'sat' | 'unsat' | 'unknown' for pc /\\ extra"""
        key = (tuple(f.get_id() for f in pc), extra.get_id())
        if key in self.cache:
            return self.cache[key][0]
        self.n_checks += 1
        qpc = [f for f in pc if not has_quantifier(f)]
        res = self.qf.check(qpc, extra) if not has_quantifier(extra) else 'sat'
        if res != 'unsat' and len(qpc) != len(pc) and FULL_PRUNE:
            res = self.full.check(pc, extra)
        self.cache[key] = (res, pc, extra)
        return res


# ---------------------------------------------------------------------------
# decision oracle (re-execution based path enumeration)
# ---------------------------------------------------------------------------
class Oracle:
    def __init__(self, prefix):
        self.prefix = list(prefix)
        self.pos = 0
        self.taken = []
        self.tags = []
        self.pending = []

    def choose(self, n, tag=''):
        if n <= 0:
            raise PathEnd()
        if self.pos < len(self.prefix):
            c, n0 = self.prefix[self.pos]
            if n0 != n:
                raise EngineError('non-deterministic re-execution at decision %d (%s): %d vs %d choices' % (self.pos, tag, n0, n))
        else:
            c = 0
            for alt in range(1, n):
                self.pending.append(self.taken + [(alt, n)])
        self.taken.append((c, n))
        self.tags.append('%s:%d/%d' % (tag, c, n))
        self.pos += 1
        return c


# ---------------------------------------------------------------------------
# obligations
# ---------------------------------------------------------------------------
class Obligation:
    def __init__(self, label, kind, pc, goal, line=None, path=None, props=None, info=None):
        self.label = label      # e.g. C15.mid.compose
        self.kind = kind        # post | pre | inv_init | inv_keep | callout | noexc | side | variant | assert | cover
        self.pc = list(pc)
        self.goal = goal
        self.line = line
        self.path = path
        self.props = props
        self.info = info or {}
        self.status = None      # proved | refuted | unknown
        self.backend = None
        self.time = 0.0
        self.model = None

    def name(self):
        s = '%s[%s]' % (self.label, self.kind)
        if self.line is not None:
            s += '@L%s' % self.line
        if self.path is not None:
            s += '#p%d' % self.path
        return s


# ---------------------------------------------------------------------------
# state
# ---------------------------------------------------------------------------
class Frame:
    def __init__(self, func, locals_, cls=None):
        self.func = func        # FuncInfo or None
        self.locals = locals_
        self.cls = cls          # enclosing class name (name mangling)


class State:
    """one symbolic execution path"""

    def __init__(self, engine, oracle):
        self.eng = engine
        self.ar = engine.ar
        self.oracle = oracle
        self.pc = []
        self.H = {}              # heap arrays: name -> z3 array term
        self.H0 = {}             # initial arrays: name -> z3 array const
        self.old = None          # snapshot (dict of arrays) for old()
        self.frames = []
        self.next_ref = z3.IntVal(FRESH_REF_BASE)
        self.heap_stack = []     # heaps used for evaluation inside old()/at_entry()
        self.facts = set()
        self.pre_refs = set()    # ids of terms known to denote pre-state objects (ref < PARAM_REF_BASE)
        self.pre_keep = []
        self.new_refs = set()    # ids of symbolic refs of objects allocated after a cut point
        self.arr_bound = {}      # id of a havocked array constant -> allocation bound at the time of the havoc
        self.wf_done = set()
        self.merge_info = {}
        self.assuming = 0        # >0 while evaluating a formula that will be assumed
        self.conj_ctx = True     # the sub-formula being evaluated is reached through conjunctions only
        self.kf_assumed = []     # assumed keys_forall facts, instantiated eagerly at table look-ups
        self.obligations = []
        self.spec = 0            # >0 : spec-mode evaluation (pure)
        self.side = []           # side conditions collected in spec mode (bv overflow etc.)
        self.ghost = {}
        self.fresh_counter = itertools.count()
        self.bound_vars = []
        self.notes = []
        self.clock = None
        self.path_id = None
        self.unit = None
        self.in_old = 0
        self.cur_line = None
        self.assumptions_used = set()
        self.loop_entry = []     # stack of snapshots for at_entry()
        self.defined = []        # pending definedness guards of the spec expression being evaluated

    # ----- naming
    def fresh(self, base, sort):
        return z3.Const('%s!%d' % (base, next(self.fresh_counter)), sort)

    def fresh_int(self, base='v'):
        return self.fresh(base, self.ar.sort)

    def new_ref(self):
        if self.spec:
            raise EngineError('allocation in spec mode (line %s)' % self.cur_line)
        r = z3.simplify(self.next_ref)
        self.next_ref = z3.simplify(r + 1)
        if not z3.is_int_value(r):
            self.new_refs.add(r.get_id())
            self.pre_keep.append(r)
        return r

    def next_ref_term(self):
        return self.next_ref

    def havoc_alloc(self):
        """after a cut point an unknown number of objects has been allocated"""
        nr = self.fresh('nr', z3.IntSort())
        self.pc.append(nr >= self.next_ref)
        self.next_ref = nr
        for c in self.ghost.get('created_arrays', []):
            self.arr_bound.setdefault(c.get_id(), nr)
        self.ghost['created_arrays'] = []
        self.trace_wf()

    def base_const(self, arr):
        while z3.is_store(arr):
            arr = arr.arg(0)
        return arr

    def wf_array(self, name, kind):
        """closed well-formedness axiom for the constant underlying heap array `name`:
        kind 'ref': every stored reference denotes an object allocated before the array was (re)created;
        kind 'len': lengths are non-negative"""
        arr = self.H.get(name)
        if arr is None or name.startswith('T:'):
            return
        base = self.base_const(arr)
        mi = self.merge_info.get(base.get_id())
        if mi is not None:
            # merged frame array: axioms for both components
            for comp in (mi[0], mi[1]):
                saved = self.H[name]
                self.H[name] = comp
                try:
                    self.wf_array(name, kind)
                finally:
                    self.H[name] = saved
            return
        key = (base.get_id(), kind)
        if key in self.wf_done or not z3.is_const(base):
            return
        self.wf_done.add(key)
        r = z3.Int('wf!r')
        if kind == 'ref2':
            # nested array (list elements / dict values holding object references)
            i = z3.Int('wf!i')
            bound = self.arr_bound.get(base.get_id())
            if bound is None:
                bound = z3.IntVal(PARAM_REF_BASE)
            e = z3.Select(z3.Select(base, r), i)
            self.pc.append(z3.ForAll([r, i], z3.And(e >= 0, e < bound, e != 600000), patterns=[e]))
            return
        if kind == 'len':
            self.pc.append(z3.ForAll([r], z3.Select(base, r) >= 0, patterns=[z3.Select(base, r)]))
            return
        if kind == 'has':
            # memory that has not been allocated yet holds no record keys
            bound = self.arr_bound.get(base.get_id())
            if bound is None:
                bound = z3.IntVal(FRESH_REF_BASE)
            self.pc.append(z3.ForAll([r], z3.Implies(r >= bound, z3.Select(base, r) == 0), patterns=[z3.Select(base, r)]))
            return
        bound = self.arr_bound.get(base.get_id())
        if bound is None:
            # ghost owner: may be a parameter object (e.g. self); heap slots of the pre-state never refer to parameters
            bound = z3.IntVal(FRESH_REF_BASE if name == 'G:own' else PARAM_REF_BASE)
        # (no heap slot ever refers to the ghost trace list)
        self.pc.append(z3.ForAll([r], z3.And(z3.Select(base, r) >= 0, z3.Select(base, r) < bound, z3.Select(base, r) != 600000),
                                 patterns=[z3.Select(base, r)]))

    def trace_wf(self):
        pass

    def tlen(self):
        """current length of the ghost trace"""
        return self.hget_in(self.cur_heap(), 'T:len', z3.IntSort(), z3.IntVal(0))

    def set_tlen(self, t):
        self.hset('T:len', z3.IntSort(), z3.IntVal(0), t)

    def pc_fact(self, f):
        if self.bound_vars:
            return      # under a quantifier: terms mention bound variables
        f = z3.simplify(f)
        if z3.is_true(f):
            return
        i = f.get_id()
        if i in self.facts:
            return
        self.facts.add(i)
        self.pc.append(f)

    # ----- path condition / decisions
    def assume(self, f):
        f = z3.simplify(f)
        if z3.is_true(f):
            return
        if z3.is_false(f):
            raise PathEnd()
        self.pc.append(f)

    def feasible(self, cond):
        c = z3.simplify(cond)
        if z3.is_true(c):
            return True
        if z3.is_false(c):
            return False
        return self.eng.solver.check(self.pc, c) != 'unsat'

    def valid(self, cond):
        """pc |= cond (cheap check; False also on unknown)"""
        c = z3.simplify(cond)
        if z3.is_true(c):
            return True
        if z3.is_false(c):
            return False
        return self.eng.solver.check(self.pc, z3.Not(c)) == 'unsat'

    def forced_int(self, term):
        """the integer value of term if the path condition forces one, else None"""
        t = z3.simplify(term)
        if z3.is_int_value(t):
            return t.as_long()
        v = self.eng.solver.model_value(self.pc, t)
        if v is None or not z3.is_int_value(v):
            return None
        if self.valid(t == v):
            return v.as_long()
        return None

    def branch(self, conds, tag=''):
        """fork on mutually exclusive, exhaustive conditions; returns chosen index"""
        if self.spec:
            raise EngineError('fork in spec mode (%s) at line %s' % (tag, self.cur_line))
        feas = [i for i, c in enumerate(conds) if self.feasible(c)]
        if not feas:
            raise PathEnd()
        k = self.oracle.choose(len(feas), '%s@%s' % (tag, self.cur_line))
        i = feas[k]
        self.assume(conds[i])
        return i

    def branch_bool(self, cond, tag=''):
        c = z3.simplify(cond)
        if z3.is_true(c):
            return True
        if z3.is_false(c):
            return False
        return self.branch([c, z3.Not(c)], tag) == 0

    # ----- obligations
    def oblige(self, label, kind, goal, line=None, props=None, info=None):
        goal = z3.simplify(goal)
        if z3.is_true(goal) and kind != 'cover':
            # still counted: trivially discharged by the simplifier
            ob = Obligation(label, kind, [], goal, line if line is not None else self.cur_line, self.path_id, props, info)
            ob.status = 'proved'
            ob.backend = 'simplifier'
            self.obligations.append(ob)
            return
        ob = Obligation(label, kind, self.pc, goal, line if line is not None else self.cur_line, self.path_id, props, info)
        ob.replay_plan = self.ghost.get('replay_plan')
        self.obligations.append(ob)

    # ----- heap
    def harr(self, name, sort):
        a = self.H.get(name)
        if a is None:
            a = z3.Const('H0!' + name, z3.ArraySort(z3.IntSort(), sort))
            self.H[name] = a
            self.H0[name] = a
        return a

    def region(self, t):
        """memory region of a ref term: 'pre' (pre-state objects), 'par' (parameters, trace), 'new' (allocated
        during the call); None if unknown"""
        if z3.is_int_value(t):
            v = t.as_long()
            if v < PARAM_REF_BASE:
                return 'pre'
            if v < FRESH_REF_BASE:
                return 'par'
            return 'new'
        if t.get_id() in self.pre_refs:
            return 'pre'
        if t.get_id() in self.new_refs:
            return 'new'
        return None

    def smart_select(self, arr, ref):
        """Select through a store chain, skipping stores at refs that are known to be different objects"""
        ref = z3.simplify(ref)
        rr = self.region(ref)
        cref = ref.as_long() if z3.is_int_value(ref) else None
        while z3.is_store(arr):
            j = arr.arg(1)
            if z3.is_int_value(j) and cref is not None:
                if j.as_long() == cref:
                    return arr.arg(2)
                arr = arr.arg(0)
                continue
            if j.get_id() == ref.get_id():
                return arr.arg(2)
            rj = self.region(j)
            if rr is not None and rj is not None and rr != rj:
                arr = arr.arg(0)
                continue
            break
        mi = self.merge_info.get(arr.get_id())
        if mi is not None and len(mi) > 3 and not (rr in ('pre', 'par')):
            # a reference at a known offset from the bound of the frame array
            d = z3.simplify(ref - mi[3])
            if z3.is_int_value(d):
                if d.as_long() >= 0:
                    return self.smart_select(mi[1], ref)
                def differs(e):
                    de = z3.simplify(ref - e)
                    if z3.is_int_value(de):
                        return de.as_long() != 0
                    re_ = self.region(e)
                    return re_ is not None and rr is not None and re_ != rr
                if all(differs(e) for e in mi[2]):
                    return self.smart_select(mi[0], ref)
        if mi is not None and rr in ('pre', 'par'):
            # frame array  lambda r. if r < bound and r not in excluded then old[r] else junk[r]
            old, junk, excluded = mi[0], mi[1], mi[2]
            clear = True
            for e in excluded:
                if z3.is_int_value(e) and cref is not None:
                    if e.as_long() == cref:
                        clear = False
                    continue
                re_ = self.region(e)
                if re_ is None or re_ == rr:
                    if e.get_id() == ref.get_id() or not (z3.is_int_value(e) and cref is not None):
                        clear = False
            if clear:
                return self.smart_select(old, ref)
        return z3.simplify(z3.Select(arr, ref))

    def merged(self, name, old, junk, bound, excluded=(), extra_keep=None):
        """array equal to `old` at refs below `bound` (except `excluded`), arbitrary (`junk`) elsewhere"""
        r = z3.Int('mg!r')
        conds = [r < bound] + [r != e for e in excluded]
        keep = z3.And(conds) if len(conds) > 1 else conds[0]
        if extra_keep is not None:
            keep = z3.Or(keep, extra_keep(r))
        lam = z3.Lambda([r], z3.If(keep, z3.Select(old, r), z3.Select(junk, r)))
        if extra_keep is None:
            self.merge_info[lam.get_id()] = (old, junk, list(excluded), bound)
            self.pre_keep.append(lam)
        return lam

    def hget(self, name, sort, ref):
        return self.smart_select(self.harr(name, sort), ref)

    def cur_heap(self):
        return self.heap_stack[-1] if self.heap_stack else self.H

    def hget_in(self, H, name, sort, ref):
        if H is self.H:
            return self.hget(name, sort, ref)
        a = H.get(name)
        if a is None:
            self.harr(name, sort)       # make sure the initial array exists
            a = self.H0[name]
        return self.smart_select(a, ref)

    def hset(self, name, sort, ref, val):
        if self.spec:
            raise EngineError('heap write in spec mode')
        self.H[name] = z3.Store(self.harr(name, sort), ref, val)

    def snapshot(self):
        return dict(self.H)

    # frame helpers
    @property
    def locals(self):
        return self.frames[-1].locals
