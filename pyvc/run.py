"""check driver: phase A runs the symbolic execution of every selected unit (one process per unit),
phase B discharges all obligations of all units in one process pool"""
import argparse
import json
import multiprocessing as mp
import os
import sys
import time
import traceback

VERIF = os.path.dirname(os.path.dirname(os.path.abspath(__file__)))
REPO = os.environ.get('PYVC_REPO', '/repo')

TIERS = {
    'quick': {'timeout_ms': 20000, 'both': False},
    'thorough': {'timeout_ms': 120000, 'both': True},
}


def load_all():
    from .front import Repo
    from .contracts import load_contract_dir, Schema
    repo = Repo(REPO)
    schema = Schema(os.path.join(VERIF, 'contracts', 'shapes.py'))
    units, spec_funcs, spec_consts = load_contract_dir([os.path.join(VERIF, 'specs'), os.path.join(VERIF, 'contracts')])
    return repo, schema, units, spec_funcs, spec_consts


_G = {}


def _symex_job(args):
    """phase A: symbolic execution of one unit -> obligations (SMT-LIB2 text for the non-trivial ones)"""
    unit_name, tier = args
    from .engine import Engine
    from .core import EngineError, has_user_quantifier, term_size
    import z3
    t0 = time.time()
    out = {'unit': unit_name, 'obligations': [], 'error': None, 'bounded': None}
    try:
        if 'loaded' not in _G:
            _G['loaded'] = load_all()
        repo, schema, units, spec_funcs, spec_consts = _G['loaded']
        unit = [u for u in units if u.name == unit_name][0]
        eng = Engine(repo, schema, units, spec_funcs, spec_consts, unit)
        res = eng.run()
        for k, ob in enumerate(res.obligations):
            o = {'idx': k, 'name': ob.name(), 'label': ob.label, 'kind': ob.kind, 'status': ob.status, 'backend': ob.backend,
                 'time': 0.0, 'line': ob.line, 'path': ob.path, 'props': ob.props, 'info': ob.info, 'unit': unit_name}
            if ob.status is None or ob.kind == 'cover':
                s = z3.Solver()
                for f in ob.pc:
                    s.add(f)
                if ob.kind != 'cover':
                    s.add(z3.Not(ob.goal))
                    # "lite" variant: without the quantified assumptions that come from contract clauses (class
                    # invariants ...); unsat there is a proof, anything else falls back to the full query
                    lite = [f for f in ob.pc if not has_user_quantifier(f)]
                    if len(lite) != len(ob.pc):
                        s2 = z3.Solver()
                        for f in lite:
                            s2.add(f)
                        s2.add(z3.Not(ob.goal))
                        o['smt2_lite'] = s2.to_smt2()
                        # "mid" variant: additionally the small quantified assumptions (loop invariants about the
                        # trace, snapshots ...) but not the large ones (whole-table class invariants)
                        prev = len(lite)
                        mids = []
                        for limit in (120, 260, 600):
                            mid = [f for f in ob.pc if not has_user_quantifier(f) or term_size(f, limit + 1) <= limit]
                            if len(mid) != prev and len(mid) != len(ob.pc):
                                s3 = z3.Solver()
                                for f in mid:
                                    s3.add(f)
                                s3.add(z3.Not(ob.goal))
                                mids.append(s3.to_smt2())
                                prev = len(mid)
                        if mids:
                            o['smt2_mid'] = mids
                plan = getattr(ob, 'replay_plan', None)
                if plan and ob.kind != 'cover':
                    names = []
                    for k_, (path_, term_) in enumerate(plan):
                        c_ = z3.Const('rp!%d' % k_, term_.sort())
                        s.add(c_ == term_)
                        names.append(path_)
                    o['replay_paths'] = names
                o['smt2'] = s.to_smt2()
                o['status'] = None
            out['obligations'].append(o)
        out.update({'paths': res.paths, 'paths_ended': res.paths_ended, 'fingerprints': res.fingerprints,
                    'inlined': sorted(res.inlined), 'by_contract': sorted(res.by_contract), 'opaque': sorted(res.opaque),
                    'assumptions': sorted(res.assumptions), 'dropped': res.dropped, 'symex_s': round(res.symex_s, 3),
                    'prune_checks': res.solver_checks, 'outcomes': res.outcomes,
                    'arith': unit.arith, 'props': unit.props, 'contract_file': os.path.relpath(unit.path, VERIF),
                    'bounded': unit.opts.get('bounded'), 'unit_line': unit.node.lineno, 'unit_key': unit.key,
                    'replay': unit.opts.get('replay')})
    except EngineError as e:
        out['error'] = 'EngineError: %s' % e
        out['trace'] = traceback.format_exc()
    except Exception as e:
        out['error'] = '%s: %s' % (type(e).__name__, e)
        out['trace'] = traceback.format_exc()
    out['wall_s'] = round(time.time() - t0, 3)
    return out


def _solve_job(args):
    """phase B: one obligation"""
    o, timeout_ms, use_cvc5, both = args
    from .solve import solve_smt2
    try:
        return solve_smt2(o, timeout_ms, use_cvc5, both)
    except Exception as e:      # pragma: no cover
        o['status'] = 'unknown'
        o['reason'] = 'solver job failed: %s' % e
        o.pop('smt2', None)
        return o


def _static_hash():
    """hash of what every unit result depends on apart from the bodies of the functions it executes: the verifier, the
    contracts and specs, and the repository sources with all function bodies blanked (signatures, class constants, enums,
    module level code stay)"""
    if 'static_hash' in _G:
        return _G['static_hash']
    import ast
    import hashlib
    h = hashlib.sha256()
    for root in (os.path.join(VERIF, 'pyvc'), os.path.join(VERIF, 'contracts'), os.path.join(VERIF, 'specs'), os.path.join(VERIF, 'nreplay')):
        for fn in sorted(os.listdir(root)):
            if fn.endswith('.py'):
                h.update(fn.encode())
                h.update(open(os.path.join(root, fn), 'rb').read())
    root = os.path.join(REPO, 'j1939')
    for fn in sorted(os.listdir(root)):
        if not fn.endswith('.py'):
            continue
        src = open(os.path.join(root, fn)).read()
        lines = src.split('\n')
        try:
            tree = ast.parse(src)
            for node in ast.walk(tree):
                if isinstance(node, (ast.FunctionDef, ast.AsyncFunctionDef)) and node.body:
                    for ln in range(node.body[0].lineno, node.end_lineno + 1):
                        lines[ln - 1] = ''
        except SyntaxError:
            pass
        h.update(fn.encode())
        h.update('\n'.join(lines).encode())
    try:
        import z3
        h.update(z3.get_version_string().encode())
    except Exception:
        pass
    _G['static_hash'] = h.hexdigest()
    return _G['static_hash']


def _func_shas():
    if 'func_shas' not in _G:
        if 'loaded' not in _G:
            _G['loaded'] = load_all()
        repo = _G['loaded'][0]
        _G['func_shas'] = {k: fi.sha256 for k, fi in repo.funcs.items()}
    return _G['func_shas']


def _cache_base(unit_name, tier):
    import hashlib
    k = hashlib.sha256(('%s|%s|%s' % (_static_hash(), unit_name, tier)).encode()).hexdigest()[:32]
    return os.path.join(VERIF, '.cache', k)


def _deps_digest(dep_keys):
    import hashlib
    shas = _func_shas()
    if any(k not in shas for k in dep_keys):
        return None
    return hashlib.sha256('|'.join('%s=%s' % (k, shas[k]) for k in sorted(dep_keys)).encode()).hexdigest()[:24]


def _cache_lookup(unit_name, tier):
    base = _cache_base(unit_name, tier)
    try:
        deps = json.load(open(base + '.idx'))
        dg = _deps_digest(deps)
        if dg is None:
            return None
        r = json.load(open('%s-%s.json' % (base, dg)))
        r['cached'] = True
        return r
    except Exception:
        return None


def _cache_store(r, tier):
    base = _cache_base(r['unit'], tier)
    deps = sorted(set(f['function'] for f in r.get('fingerprints', [])))
    dg = _deps_digest(deps)
    if dg is None or not deps:
        return
    os.makedirs(os.path.join(VERIF, '.cache'), exist_ok=True)
    for path, obj in ((base + '.idx', deps), ('%s-%s.json' % (base, dg), r)):
        tmp = path + '.tmp%d' % os.getpid()
        with open(tmp, 'w') as f:
            json.dump(obj, f, default=str)
        os.replace(tmp, path)


def run_units(unit_names, tier, jobs=None):
    """Results of a unit are cached on disk under a key that covers every input: the verifier, contracts and specs, the
    repository sources outside function bodies, the tier - and the sha256 of every repository function the unit executed
    (the function under contract and every inlined callee).  A unit that serves several properties is executed once per
    tree; a change to one function re-executes only the units that run it.  The cache is an optimisation only
    (PYVC_NO_CACHE=1 disables it; a missing cache is rebuilt); undecided results and checker errors are never cached."""
    jobs = jobs or min(16, os.cpu_count() or 4)
    cfg = TIERS[tier]
    ctx = mp.get_context('fork')
    use_cache = os.environ.get('PYVC_NO_CACHE', '0') != '1'
    cached = []
    if use_cache:
        rest = []
        for n in unit_names:
            r = _cache_lookup(n, tier)
            if r is not None:
                cached.append(r)
            else:
                rest.append(n)
        unit_names = rest
    if not unit_names:
        return cached
    # ---- phase A
    if len(unit_names) == 1 or jobs == 1:
        results = [_symex_job((n, tier)) for n in unit_names]
    else:
        # one fresh process per unit: the verification conditions of a unit must not depend on which units the same worker
        # happened to execute before (z3 term ids, hence argument orders after simplification, depend on process history)
        with ctx.Pool(min(jobs, len(unit_names)), maxtasksperchild=1) as pool:
            results = list(pool.imap_unordered(_symex_job, [(n, tier) for n in unit_names], chunksize=1))
    # ---- phase B
    todo = []
    for r in results:
        for o in r['obligations']:
            if o.get('smt2') is not None:
                todo.append(o)
    solved = {}
    if todo:
        texts = {(o['unit'], o['idx']): (o.get('smt2'), o.get('smt2_lite'), o.get('smt2_mid')) for o in todo}
        work = [(o, cfg['timeout_ms'], True, cfg['both']) for o in todo]
        if jobs == 1:
            done = [_solve_job(w) for w in work]
        else:
            with ctx.Pool(min(jobs, max(1, len(work)))) as pool:
                done = list(pool.imap_unordered(_solve_job, work, chunksize=2))
        for o in done:
            solved[(o['unit'], o['idx'])] = o
        # second chance for undecided obligations: larger budget, machine no longer saturated
        again = [o for o in done if o.get('status') == 'unknown']
        if again and len(again) <= 40:
            work = []
            for o in again:
                t = texts[(o['unit'], o['idx'])]
                o2 = dict(o)
                o2['smt2'], o2['status'] = t[0], None
                o2['allow_weak'] = True     # last resort after the long budget: counterexample of the weakened query
                if t[1]:
                    o2['smt2_lite'] = t[1]
                if t[2]:
                    o2['smt2_mid'] = t[2]
                work.append((o2, cfg['timeout_ms'] * 3, True, cfg['both']))
            if jobs == 1:
                done2 = [_solve_job(w) for w in work]
            else:
                with ctx.Pool(min(max(1, jobs // 2), len(work))) as pool:
                    done2 = list(pool.imap_unordered(_solve_job, work, chunksize=1))
            for o in done2:
                o['retried'] = True
                solved[(o['unit'], o['idx'])] = o
    for r in results:
        r['obligations'] = [solved.get((o['unit'], o['idx']), o) for o in r['obligations']]
        for o in r['obligations']:
            o.pop('smt2', None)
            o.pop('smt2_lite', None)
            o.pop('smt2_mid', None)
    if use_cache:
        os.makedirs(os.path.join(VERIF, '.cache'), exist_ok=True)
        for r in results:
            # only clean, fully decided results are reused
            if r.get('error') or any(o.get('status') not in ('proved', 'refuted') and o['kind'] != 'cover' for o in r['obligations']):
                continue
            try:
                _cache_store(r, tier)
            except Exception:
                pass
    return cached + results


def main(argv=None):
    ap = argparse.ArgumentParser()
    ap.add_argument('prop')
    ap.add_argument('--tier', default=os.environ.get('VERIF_TIER', 'quick'))
    ap.add_argument('--units', default=None, help='substring filter on unit names')
    ap.add_argument('--replay', default=None)
    ap.add_argument('-v', action='store_true')
    ap.add_argument('-j', type=int, default=None)
    a = ap.parse_args(argv)
    from .report import check_property
    return check_property(a)


if __name__ == '__main__':
    sys.exit(main())
