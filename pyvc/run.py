"""check driver: select the units of a property, run them in a process pool, write evidence"""
import argparse
import json
import multiprocessing as mp
import os
import sys
import time
import traceback

VERIF = os.path.dirname(os.path.dirname(os.path.abspath(__file__)))
REPO = os.environ.get('PYVC_REPO', '/repo')

TIERS = {
    'quick': {'timeout_ms': 20000, 'both': False},
    'thorough': {'timeout_ms': 120000, 'both': True},
}


def load_all():
    from .front import Repo
    from .contracts import load_contract_dir, Schema
    repo = Repo(REPO)
    schema = Schema(os.path.join(VERIF, 'contracts', 'shapes.py'))
    units, spec_funcs, spec_consts = load_contract_dir([os.path.join(VERIF, 'specs'), os.path.join(VERIF, 'contracts')])
    return repo, schema, units, spec_funcs, spec_consts


_G = {}


def _job(args):
    unit_name, tier = args
    from .engine import Engine
    from .core import EngineError
    from .solve import discharge, model_to_json
    import z3
    t0 = time.time()
    out = {'unit': unit_name, 'obligations': [], 'error': None}
    try:
        if 'loaded' not in _G:
            _G['loaded'] = load_all()
        repo, schema, units, spec_funcs, spec_consts = _G['loaded']
        unit = [u for u in units if u.name == unit_name][0]
        eng = Engine(repo, schema, units, spec_funcs, spec_consts, unit)
        res = eng.run()
        cfg = TIERS[tier]
        n_bad = 0
        for ob in res.obligations:
            # once a unit is known to be violated, do not spend the full budget on its other obligations
            tmo = cfg['timeout_ms'] if n_bad == 0 else min(cfg['timeout_ms'], 4000)
            discharge(ob, tmo, n_bad == 0, cfg['both'])
            if ob.status == 'refuted':
                n_bad += 1
            o = {'name': ob.name(), 'label': ob.label, 'kind': ob.kind, 'status': ob.status, 'backend': ob.backend,
                 'time': round(ob.time, 4), 'line': ob.line, 'path': ob.path, 'props': ob.props, 'info': ob.info}
            if ob.status == 'refuted' and ob.model is not None:
                o['model'] = model_to_json(ob.model)
            if ob.status in ('refuted', 'unknown'):
                o['goal'] = str(ob.goal)[:1500]
                o['reason'] = getattr(ob, 'reason', None)
            out['obligations'].append(o)
        out.update({'paths': res.paths, 'paths_ended': res.paths_ended, 'fingerprints': res.fingerprints,
                    'inlined': sorted(res.inlined), 'by_contract': sorted(res.by_contract), 'opaque': sorted(res.opaque),
                    'assumptions': sorted(res.assumptions), 'dropped': res.dropped, 'symex_s': round(res.symex_s, 3),
                    'prune_checks': res.solver_checks, 'outcomes': res.outcomes,
                    'arith': unit.arith, 'props': unit.props, 'contract_file': os.path.relpath(unit.path, VERIF)})
    except EngineError as e:
        out['error'] = 'EngineError: %s' % e
        out['trace'] = traceback.format_exc()
    except Exception as e:
        out['error'] = '%s: %s' % (type(e).__name__, e)
        out['trace'] = traceback.format_exc()
    out['wall_s'] = round(time.time() - t0, 3)
    return out


def run_units(unit_names, tier, jobs=None):
    jobs = jobs or min(16, os.cpu_count() or 4)
    if len(unit_names) == 1 or jobs == 1:
        return [_job((n, tier)) for n in unit_names]
    ctx = mp.get_context('fork')
    with ctx.Pool(min(jobs, len(unit_names))) as pool:
        return list(pool.imap_unordered(_job, [(n, tier) for n in unit_names], chunksize=1))


def main(argv=None):
    ap = argparse.ArgumentParser()
    ap.add_argument('prop')
    ap.add_argument('--tier', default=os.environ.get('VERIF_TIER', 'quick'))
    ap.add_argument('--units', default=None, help='substring filter on unit names')
    ap.add_argument('--replay', default=None)
    ap.add_argument('-v', action='store_true')
    ap.add_argument('-j', type=int, default=None)
    a = ap.parse_args(argv)
    from .report import check_property
    return check_property(a)


if __name__ == '__main__':
    sys.exit(main())
