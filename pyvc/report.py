"""aggregate unit results for one property: verdict, evidence file, exit code"""
import json
import os
import sys
import time

from .run import VERIF, REPO, load_all, run_units

EXIT_OK, EXIT_VIOLATION, EXIT_UNDECIDED, EXIT_ERROR = 0, 1, 2, 3


def ob_belongs(o, unit_props, prop):
    if o.get('props'):
        return prop in o['props']
    return prop in unit_props


def load_known():
    p = os.path.join(VERIF, 'known_findings.json')
    if not os.path.exists(p):
        return {'findings': [], 'fixed': []}
    return json.load(open(p))


def core_label(name):
    """obligation name without source line / path number (stable across edits of the code)"""
    return name.split('@')[0]


def load_baseline(prop):
    p = os.path.join(VERIF, 'baseline', prop + '.json')
    if not os.path.exists(p):
        return {'units': {}}
    return json.load(open(p))


def baseline_verdict(o, r, base):
    """an obligation the solver left undecided: if it was proved on the committed baseline tree and a function this unit
    verifies (the function under contract or an inlined callee) has changed since, the change broke a proof that existed -
    reported as a violation without a failing input.  Same code as the baseline: solver budget problem, stays undecided."""
    bu = base.get('units', {}).get(r['unit'])
    if not bu or core_label(o['name']) not in bu.get('proved', []):
        return None
    now = {f['function']: f['sha256'] for f in r.get('fingerprints', [])}
    changed = sorted(set(k for k in set(now) | set(bu['fp']) if now.get(k) != bu['fp'].get(k)))
    if not changed:
        return None
    return changed


def check_property(a):
    t0 = time.time()
    prop = a.prop
    tier = a.tier
    seed = int(os.environ.get('VERIF_SEED', '0') or 0)
    if a.replay:
        from .replay import run_replay_file
        return run_replay_file(a.replay)
    try:
        repo, schema, units, spec_funcs, spec_consts = load_all()
    except Exception as e:
        print('CHECKER-ERROR: %s' % e)
        return EXIT_ERROR
    sel = [u for u in units if prop in u.props]
    if a.units:
        sel = [u for u in sel if a.units in u.name]
    if not sel:
        print('CHECKER-ERROR: no verification units registered for %s' % prop)
        return EXIT_ERROR
    results = run_units([u.name for u in sel], tier, a.j)
    results.sort(key=lambda r: r['unit'])
    from .props import PROPS
    meta = PROPS.get(prop, {})

    errors = [r for r in results if r['error']]
    obs = []
    for r in results:
        uprops = r.get('props', [])
        for o in r['obligations']:
            if ob_belongs(o, uprops, prop):
                o['unit'] = r['unit']
                obs.append(o)
    # obligations of bounded stand-in units (stated bound in the unit's preconditions) are decided like the others but
    # reported apart and never counted as proved
    bounded_units = {r['unit']: r.get('bounded') for r in results if r.get('bounded')}
    bounded_obs = [o for o in obs if o['unit'] in bounded_units and o['kind'] != 'cover']
    counted = [o for o in obs if o['kind'] != 'cover']
    covers = [o for o in obs if o['kind'] == 'cover']
    proved = [o for o in counted if o['status'] == 'proved']
    refuted = [o for o in counted if o['status'] == 'refuted']
    unknown = [o for o in counted if o['status'] in ('unknown',)]
    disagree = [o for o in counted if o['status'] == 'disagree']
    vacuous = [o for o in covers if o['status'] == 'vacuous']

    # known findings
    known = load_known()
    known_hits = []
    violations = []
    for o in refuted:
        kf = None
        for f in known.get('findings', []):
            if f['property'] == prop and f['obligation'] == o['label'] and (f.get('unit') in (None, o['unit'])):
                kf = f
        if kf is not None:
            known_hits.append((o, kf))
        else:
            violations.append(o)
    # a known finding must be delimited: re-ask the solver outside the recorded region
    if known_hits:
        from .known import outside_region
        still = []
        for o, kf in known_hits:
            verdict = outside_region(o, kf, tier)
            if verdict == 'only-region':
                still.append((o, kf))
            elif verdict == 'other':
                violations.append(o)
            else:
                unknown.append(o)
        known_hits = still

    # undecided obligations: proved on the baseline and the verified code changed since -> violation (no failing input)
    base = load_baseline(prop)
    by_unit = {r['unit']: r for r in results}
    regressed = {}
    still_unknown = []
    for o in unknown:
        ch = baseline_verdict(o, by_unit[o['unit']], base)
        if ch:
            regressed[id(o)] = ch
            violations.append(o)
        else:
            still_unknown.append(o)
    unknown = still_unknown

    exit_code = EXIT_OK
    lines = []
    if errors or vacuous or disagree:
        exit_code = EXIT_ERROR
        for r in errors:
            lines.append('CHECKER-ERROR unit=%s %s' % (r['unit'], r['error']))
            if a.v and r.get('trace'):
                lines.append(r['trace'])
        for o in vacuous:
            lines.append('CHECKER-ERROR vacuous precondition in unit %s (%s)' % (o['unit'], o['name']))
        for o in disagree:
            lines.append('CHECKER-ERROR solvers disagree on %s in %s' % (o['name'], o['unit']))
    replay_paths = []
    if violations:
        from .replay import make_replay
        # a refuted obligation stands on its own: it is reported as a violation even when another unit could not be run
        exit_code = EXIT_VIOLATION
        by_label = {}
        for o in violations:
            by_label.setdefault((o['unit'], o['label']), []).append(o)
        for (un, label), lst in sorted(by_label.items()):
            o = lst[0]
            extra = None
            if id(o) in regressed:
                extra = {'basis': 'obligation was discharged on the baseline tree (baseline/%s.json) and is no longer discharged '
                                  'after the change of %s; solver: %s' % (prop, ', '.join(regressed[id(o)]), o.get('reason') or 'timeout'),
                         'changed_functions': regressed[id(o)]}
            path, confirmed = make_replay(prop, o, [u for u in units if u.name == un][0], repo, extra, by_unit.get(un))
            replay_paths.append(path)
            suffix = ' no-failing-input-found'
            if confirmed:
                try:
                    rj = json.load(open(path))
                    suffix = (' failing-input=native-replay-of-the-counter-model' if (rj.get('native_replay') or {}).get('exit') == 1
                              else ' failing-input=bounded-native-search')
                except Exception:
                    suffix = ''
            lines.append('VIOLATION property=%s replay=%s obligation=%s unit=%s%s' % (prop, path, o['name'], un, suffix))
    elif unknown and exit_code == EXIT_OK:
        exit_code = EXIT_UNDECIDED
    for o in unknown:
        lines.append('UNDECIDED obligation=%s unit=%s reason=%s' % (o['name'], o['unit'], o.get('reason')))
    seen_kf = set()
    for o, kf in known_hits:
        if kf['id'] in seen_kf:
            continue
        seen_kf.add(kf['id'])
        lines.append('KNOWN-FINDING: property=%s %s' % (prop, kf['what']))

    # bounded native stand-ins (labelled bounded, never counted as proved); a failure there is a failing input on the real code
    bounded_runs = []
    for cmd in (meta.get('bounded_cmds') or {}).get(tier if tier in ('quick', 'thorough') else 'quick', []):
        import subprocess
        tb = time.time()
        try:
            p_ = subprocess.run(['/venv/bin/python', os.path.join(VERIF, cmd[0]), REPO] + cmd[1:], capture_output=True, text=True, timeout=1800)
            out, rc = (p_.stdout + p_.stderr).strip().splitlines(), p_.returncode
        except Exception as e:      # pragma: no cover
            out, rc = ['%s' % e], 3
        bounded_runs.append({'cmd': ' '.join(cmd), 'exit': rc, 'last_line': out[-1] if out else '', 'wall_s': round(time.time() - tb, 1), 'label': 'bounded'})
        if rc == 1:
            os.makedirs(os.path.join(VERIF, 'replays'), exist_ok=True)
            rp = os.path.join(VERIF, 'replays', '%s-bounded-%s.json' % (prop, os.path.basename(cmd[0]).split('.')[0]))
            json.dump({'property': prop, 'kind': 'bounded native run', 'cmd': '/venv/bin/python %s %s %s' % (cmd[0], REPO, ' '.join(cmd[1:])),
                       'output': out[-25:], 'failing_input_found': True}, open(rp, 'w'), indent=1)
            lines.append('VIOLATION property=%s replay=%s bounded-native-run=%s' % (prop, rp, cmd[0]))
            exit_code = EXIT_VIOLATION if exit_code in (EXIT_OK, EXIT_UNDECIDED) else exit_code
        elif rc != 0 and exit_code == EXIT_OK:
            lines.append('CHECKER-ERROR bounded run %s exit %d' % (cmd[0], rc))
            exit_code = EXIT_ERROR
    # evidence
    by_backend = {}
    for o in proved:
        if o['unit'] in bounded_units:
            continue
        by_backend[o['backend']] = by_backend.get(o['backend'], 0) + 1
    solver_s = round(sum(o['time'] for o in counted), 3)
    functions = []
    seen = set()
    inlined, bycontract, opaque, dropped = set(), set(), set(), {}
    assumptions = set(meta.get('assumptions', []))
    for r in results:
        for f in r.get('fingerprints', []):
            if f['function'] not in seen:
                seen.add(f['function'])
                functions.append(f)
        inlined.update(r.get('inlined', []))
        bycontract.update(r.get('by_contract', []))
        opaque.update(r.get('opaque', []))
        assumptions.update(r.get('assumptions', []))
        for k, v in (r.get('dropped') or {}).items():
            if v:
                dropped[k] = v
    samples = []
    for o in (refuted + unknown + proved)[:0] + sorted(proved, key=lambda o: -o['time'])[:4] + refuted[:3]:
        samples.append({'obligation': o['name'], 'unit': o['unit'], 'status': o['status'], 'backend': o['backend'], 'solver_s': o['time']})
    n_open = len(refuted) + len(unknown) + len(regressed)
    level = 'proof' if (n_open == 0 and not errors and counted) else 'other'
    coverage = {
        'obligations': len(counted) - len(bounded_obs),
        'discharged': len([o for o in proved if o['unit'] not in bounded_units]),
        'bounded_units': [{'unit': un, 'bound': b, 'obligations': len([o for o in bounded_obs if o['unit'] == un]),
                           'discharged_within_bound': len([o for o in bounded_obs if o['unit'] == un and o['status'] == 'proved']),
                           'label': 'bounded - not counted as proved'} for un, b in sorted(bounded_units.items())],
        'checker_cmd': './check %s --tier %s' % (prop, tier),
        'trusted_base': ['pyvc VC generator (/verif/pyvc) and its semantics of the Python subset', 'z3 5.1.0 (python3-vt)', 'cvc5 1.0.3 (fallback)',
                         'CPython semantics of the built-ins axiomatised in pyvc/builtins.py'],
        'explanation': meta.get('explanation', '') + (' OPEN: %d refuted, %d undecided obligations; %d recorded known findings.' % (len(refuted), len(unknown), len(seen_kf)) if n_open else ''),
        'by_backend': by_backend,
        'solver_s': solver_s,
        'units': [{'unit': r['unit'], 'paths': r.get('paths'), 'obligations': len([o for o in r['obligations'] if o['kind'] != 'cover']),
                   'symex_s': r.get('symex_s'), 'wall_s': r.get('wall_s'), 'arith': r.get('arith'), 'error': r['error'],
                   'reused_from_cache_of_this_tree': bool(r.get('cached'))} for r in results],
        'functions_under_contract': functions,
        'inlined_callees': sorted(inlined),
        'callees_by_contract': sorted(bycontract),
        'opaque_callees': sorted(opaque),
        'extraction_drops': dropped,
        'preconditions_satisfiable': len([o for o in covers if o['status'] == 'proved']),
        'refuted': [{'obligation': o['name'], 'unit': o['unit']} for o in refuted],
        'undecided': [{'obligation': o['name'], 'unit': o['unit']} for o in unknown],
        'regressed_vs_baseline': [{'obligation': o['name'], 'unit': o['unit'], 'changed_functions': regressed[id(o)]}
                                  for o in violations if id(o) in regressed],
        'known_findings_seen': sorted(seen_kf),
        'out_of_scope': meta.get('out_of_scope', []),
        'bounded': meta.get('bounded', []),
        'bounded_runs': bounded_runs,
        'samples': samples,
        'repo_root': REPO,
    }
    ev = {
        'property_id': prop, 'tier': tier if tier in ('quick', 'thorough') else 'quick', 'seed': seed, 'level': level,
        'coverage': coverage, 'assumptions': sorted(assumptions), 'wall_s': round(time.time() - t0, 2),
        'violations': len(violations),
    }
    # evidence of runs against another tree (seeded changes in scratch worktrees: PYVC_REPO) or of partial runs
    # (--units) never replaces the evidence of /repo
    evdir = os.path.join(VERIF, 'evidence') if (REPO == '/repo' and not a.units) else os.path.join('/tmp', 'pyvc_evidence_scratch')
    os.makedirs(evdir, exist_ok=True)
    with open(os.path.join(evdir, prop + '.json'), 'w') as f:
        json.dump(ev, f, indent=1, sort_keys=True)
    if os.environ.get('PYVC_WRITE_BASELINE') and REPO == '/repo' and not a.units:
        if exit_code != EXIT_OK:
            print('baseline NOT written: the run is not clean')
        else:
            bd = os.path.join(VERIF, 'baseline')
            os.makedirs(bd, exist_ok=True)
            units_b = {}
            for r in results:
                mine = sorted(set(core_label(o['name']) for o in r['obligations']
                                  if o['kind'] != 'cover' and o['status'] == 'proved' and ob_belongs(o, r.get('props', []), prop)))
                units_b[r['unit']] = {'fp': {f['function']: f['sha256'] for f in r.get('fingerprints', [])}, 'proved': mine}
            with open(os.path.join(bd, prop + '.json'), 'w') as f:
                json.dump({'property': prop, 'units': units_b}, f, indent=0, sort_keys=True)
    if os.environ.get('PYVC_TIMES'):
        slow = sorted([o for o in counted if o['time'] >= float(os.environ['PYVC_TIMES'])], key=lambda o: -o['time'])
        for o in slow[:40]:
            print('  SLOW %.1fs [%s] %s %s %s' % (o['time'], o.get('backend'), o['unit'].split(':')[-1], o['name'], ((o.get('info') or {}).get('expr') or '')[:90]))
    for ln in lines:
        print(ln)
    print('%s: %d units, %d obligations, %d proved, %d refuted, %d undecided, %d known findings; exit %d; %.1fs'
          % (prop, len(results), len(counted), len(proved), len(refuted), len(unknown), len(seen_kf), exit_code, time.time() - t0))
    if a.v:
        for o in refuted + unknown + [v for v in violations if id(v) in regressed]:
            print('  %s[%s%s] %s %s line=%s %s' % (o['status'], o.get('backend'), ' weak-model:' + str(o.get('weak_backend')) if o.get('weak_model') else '', o['unit'], o['name'], o['line'], ((o.get('info') or {}).get('expr') or '')[:160]))
            if o.get('goal') and os.environ.get('PYVC_SHOW_GOAL'):
                print('     goal:', o['goal'][-600:])
            if o.get('model'):
                pm = {k: v for k, v in o['model'].items() if k.startswith('p!') or k.startswith('kw')}
                print('     model params:', pm)
    return exit_code
