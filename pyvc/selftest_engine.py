"""engine regression tests on the real repository code with contracts of known verdict"""
import ast
import os

from .contracts import Unit
from .run import load_all

TESTS = [
    # (contract source, expected: all proved?)
    ('''
@unit("j1939.message_id:MessageId.can_id.getter", variant="selftest_ok", arith="bv", width=48, props=[])
def _(self: "MessageId"):
    requires(0 <= self.priority < 8, 0 <= self.parameter_group_number < 2**18, 0 <= self.source_address < 256)
    ensures("ok", result == self.priority * 2**26 + self.parameter_group_number * 256 + self.source_address)
''', True),
    ('''
@unit("j1939.message_id:MessageId.can_id.getter", variant="selftest_bad", arith="bv", width=48, props=[])
def _(self: "MessageId"):
    requires(0 <= self.priority < 8, 0 <= self.parameter_group_number < 2**18, 0 <= self.source_address < 256)
    ensures("bad", result == self.priority * 2**25 + self.parameter_group_number * 256 + self.source_address)
''', False),
    ('''
@unit("j1939.message_id:MessageId.can_id.getter", variant="selftest_vacuous", arith="bv", width=48, props=[])
def _(self: "MessageId"):
    requires(0 <= self.priority < 8, self.priority > 9)
    ensures("vac", result == 0)
''', 'vacuous'),
]


def run_selftests():
    from .engine import Engine
    from .solve import discharge
    repo, schema, units, spec_funcs, spec_consts = load_all()
    ok = True
    for src, expect in TESTS:
        tree = ast.parse(src)
        node = tree.body[0]
        dec = node.decorator_list[0]
        key = ast.literal_eval(dec.args[0])
        opts = {k.arg: ast.literal_eval(k.value) for k in dec.keywords}
        u = Unit(key, opts, node, '<selftest>')
        eng = Engine(repo, schema, units + [u], spec_funcs, spec_consts, u)
        res = eng.run()
        for ob in res.obligations:
            discharge(ob, 10000, False)
        stat = [ob.status for ob in res.obligations if ob.kind != 'cover']
        cov = [ob.status for ob in res.obligations if ob.kind == 'cover']
        if expect is True:
            good = all(s == 'proved' for s in stat) and stat
        elif expect is False:
            good = any(s == 'refuted' for s in stat)
        else:
            good = any(s == 'vacuous' for s in cov)
        print('selftest %-20s expected %-8s -> %s' % (opts['variant'], expect, 'ok' if good else 'FAILED %r %r' % (stat, cov)))
        ok = ok and bool(good)
    return ok
