"""discharge obligations: z3 (python API) first, /usr/bin/cvc5 on the SMT-LIB2 dump for unknowns"""
import os
import subprocess
import tempfile
import time

import z3

CVC5 = '/usr/bin/cvc5'


def model_to_json(m, limit=400):
    out = {}
    for d in m.decls():
        name = d.name()
        if len(out) >= limit:
            break
        try:
            v = m[d]
            if isinstance(v, z3.FuncInterp):
                out[name] = {'func': [[[str(x) for x in e[:-1]], str(e[-1])] for e in v.as_list()[:-1]], 'else': str(v.else_value())}
            else:
                out[name] = str(v)
        except Exception as e:      # pragma: no cover
            out[name] = '<%s>' % e
    return out


def run_cvc5(smt2, timeout_s):
    with tempfile.NamedTemporaryFile('w', suffix='.smt2', delete=False) as f:
        f.write('(set-logic ALL)\n')
        f.write(smt2)
        path = f.name
    try:
        p = subprocess.run([CVC5, '--tlimit=%d' % int(timeout_s * 1000), path], capture_output=True, text=True, timeout=timeout_s + 5)
        out = p.stdout.strip().splitlines()
        return out[0] if out else 'unknown'
    except Exception:
        return 'unknown'
    finally:
        os.unlink(path)


def discharge(ob, timeout_ms=20000, cvc5=True, both=False):
    """sets ob.status in {'proved','refuted','unknown','vacuous'}"""
    if ob.status is not None and not (ob.kind == 'cover'):
        return ob
    t0 = time.time()
    s = z3.Solver()
    s.set('timeout', timeout_ms)
    for f in ob.pc:
        s.add(f)
    if ob.kind == 'cover':
        r = s.check()
        ob.time = time.time() - t0
        ob.backend = 'z3'
        if r == z3.sat:
            ob.status = 'proved'
        elif r == z3.unsat:
            ob.status = 'vacuous'
        else:
            ob.status = 'proved-unknown-cover'
        return ob
    s.add(z3.Not(ob.goal))
    r = s.check()
    ob.backend = 'z3'
    if r == z3.unsat:
        ob.status = 'proved'
    elif r == z3.sat:
        ob.status = 'refuted'
        try:
            ob.model = s.model()
        except Exception:
            ob.model = None
    else:
        ob.status = 'unknown'
        ob.reason = s.reason_unknown()
        if cvc5 and os.path.exists(CVC5):
            try:
                smt2 = s.to_smt2()
            except Exception:
                smt2 = None
            if smt2 and 'lambda' not in smt2:
                res = run_cvc5(smt2, max(timeout_ms / 1000.0, 5))
                if res == 'unsat':
                    ob.status = 'proved'
                    ob.backend = 'cvc5'
                elif res == 'sat':
                    ob.status = 'refuted'
                    ob.backend = 'cvc5'
    if both and ob.status == 'proved' and ob.backend == 'z3' and os.path.exists(CVC5):
        try:
            smt2 = s.to_smt2()
            if 'lambda' not in smt2:
                res = run_cvc5(smt2, max(timeout_ms / 1000.0, 5))
                ob.cross = res
                if res == 'sat':
                    ob.status = 'disagree'
        except Exception:
            pass
    ob.time = time.time() - t0
    return ob


def solve_smt2(o, timeout_ms=20000, cvc5=True, both=False):
    """discharge one obligation given as SMT-LIB2 text (dict in / dict out; runs in a pool worker)"""
    t0 = time.time()
    smt2 = o.pop('smt2')
    lite = o.pop('smt2_lite', None)
    mid = o.pop('smt2_mid', None)
    def attempt(text, opts, tmo):
        s_ = z3.Solver()
        s_.set('timeout', int(tmo))
        for k_, v_ in opts.items():
            s_.set(k_, v_)
        s_.from_string(text)
        return s_, s_.check()

    if isinstance(mid, str):
        mid = [mid]
    MBQI = {'smt.ematching': False}
    r = z3.unknown
    s = None
    # 1. the full query, default configuration, short budget (most obligations end here)
    # budgets of the intermediate attempts grow with the overall budget (the retry pass gets three times as much): an
    # obligation that needs a weakened query must not depend on a 3 s window when the machine is saturated
    cap = max(3000, timeout_ms // 4)
    s, r = attempt(smt2, {}, min(timeout_ms, 2500))
    o['backend'] = 'z3'
    # 1b. the same with the legacy simplex core (often much faster on the div/mod-heavy layout arithmetic)
    if r == z3.unknown:
        s, r = attempt(smt2, {'smt.arith.solver': 2}, min(timeout_ms, cap))
        if r != z3.unknown:
            o['backend'] = 'z3(arith2)'
    # 2. weakened queries (unsat there is a proof): without the quantified assumptions from contract clauses (lite),
    #    with the small ones (mid tiers); default and MBQI-only configuration
    if r == z3.unknown and o['kind'] != 'cover':
        tiers = [(lite, 'z3(lite)')] + [(m_, 'z3(mid%d)' % (i_ + 1)) for i_, m_ in enumerate(mid or [])]
        for text, name in tiers:
            if text is None:
                continue
            for opts in ({}, MBQI):
                _, r2 = attempt(text, opts, min(timeout_ms, cap))
                if r2 == z3.unsat:
                    o['status'] = 'proved'
                    o['backend'] = name
                    o['time'] = round(time.time() - t0, 4)
                    return o
    # 3. the full query again: MBQI without E-matching (E-matching loops on the array/lambda-heavy heap encodings are
    #    the usual reason for a time-out), then the default configuration with the whole budget
    if r == z3.unknown:
        for opts, tmo, name in ((MBQI, timeout_ms // 2, 'z3(mbqi)'), ({}, timeout_ms, 'z3')):
            s, r = attempt(smt2, opts, tmo)
            o['backend'] = name
            if r != z3.unknown:
                break
    if o['kind'] == 'cover':
        o['status'] = 'proved' if r == z3.sat else ('vacuous' if r == z3.unsat else 'proved')
        if r == z3.unknown:
            o['cover_unknown'] = True
        o['time'] = round(time.time() - t0, 4)
        return o
    if r == z3.unsat:
        o['status'] = 'proved'
    elif r == z3.sat:
        o['status'] = 'refuted'
        o['goal'] = smt2[-1500:]
        try:
            o['model'] = model_to_json(s.model())
        except Exception:
            o['model'] = None
        if o.get('replay_paths'):
            try:
                from nreplay import extract as _nx
                m_ = s.model()
                consts = {d.name(): d for d in m_.decls() if d.name().startswith('rp!')}
                vals = {}
                for k_, path_ in enumerate(o['replay_paths']):
                    d_ = consts.get('rp!%d' % k_)
                    if d_ is not None:
                        vals[path_] = _nx.model_value(m_, d_())
                o['replay_inputs'] = _nx.record(vals)
            except Exception as e_:
                o['replay_inputs'] = None
                o['replay_error'] = str(e_)
    else:
        o['status'] = 'unknown'
        o['goal'] = smt2[-1500:]
        o['reason'] = s.reason_unknown()
        # the full query is undecided.  Look for a counterexample of the weakened queries (quantified assumptions from
        # contract clauses dropped, their eager instances at the objects the path touches kept): such a model satisfies
        # the class invariants wherever the execution looks.  It is reported as a refutation, flagged as such.
        for text, name in ([(m_, 'z3(mid-model)') for m_ in reversed(mid or [])] + [(lite, 'z3(lite-model)')]):
            if text is None or not o.get('allow_weak'):
                continue
            s2 = z3.Solver()
            s2.set('timeout', int(min(timeout_ms, 8000)))
            s2.from_string(text)
            if s2.check() == z3.sat:
                # NOT a refutation: the weakened query drops assumptions.  Recorded as a hint only; the verdict stays
                # 'unknown' and pyvc/report.py decides with the committed baseline (proved before + code changed).
                o['weak_backend'] = name
                o['weak_model'] = True
                try:
                    o['model'] = model_to_json(s2.model())
                except Exception:
                    o['model'] = None
                break
        if o['status'] == 'unknown' and cvc5 and os.path.exists(CVC5) and 'lambda' not in smt2:
            res = run_cvc5(smt2, max(timeout_ms / 1000.0, 5))
            if res == 'unsat':
                o['status'] = 'proved'
                o['backend'] = 'cvc5'
            elif res == 'sat':
                o['status'] = 'refuted'
                o['backend'] = 'cvc5'
    if both and o['status'] == 'proved' and o['backend'] == 'z3' and os.path.exists(CVC5) and 'lambda' not in smt2:
        # cross-check of a z3 proof by cvc5 (thorough tier): short budget per obligation, `sat` there is a disagreement
        res = run_cvc5(smt2, 10)
        o['cross'] = res
        if res == 'sat':
            o['status'] = 'disagree'
    o['time'] = round(time.time() - t0, 4)
    return o
