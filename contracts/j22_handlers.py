# J1939-22 receive handlers: FD.TP.CM (RTS / CTS / EOM status / EOM ack / BAM / Abort) and FD.TP.DT.
# C02 (sessions, reassembly, deliver once on matching EOM status), C03 (field extraction, replies), C06 (deadlines, nothing
# truncated), C07 (Inv22 preserved on every frame), C09 (grants, hold), C10 (inbound traffic never touches the pools).

def frame22_ok(mid, dest_address, data):
    return (octets(data) and len(data) <= 64 and 0 <= dest_address and dest_address <= 255
            and 0 <= mid.source_address and mid.source_address <= 255 and 0 <= mid.priority and mid.priority <= 7
            and 0 <= mid.parameter_group_number and mid.parameter_group_number < 2 ** 18
            # the frame's data list is the caller's, not a buffer of the stack
            and not has_key(owner(data), 'next_packet') and not has_key(owner(data), 'fill_level') and not has_key(owner(data), 'tos')
            and not has_key(owner(data), 'next_packet_to_send'))


def pools_same(dll):
    return same_list(pool_rts(dll), old(pool_rts(dll))) and same_list(pool_bam(dll), old(pool_bam(dll)))


def is_fd_delivery(ev, notify, prio, pgn, src, dest, timestamp):
    return (ev.fn == notify and ev.n == 6 and ev.i0 == prio and ev.i1 == pgn and ev.i2 == src and ev.i3 == dest and ev.r4 == timestamp)


@unit("j1939.j1939_22:J1939_22._process_tp_cm", props=["C02", "C03", "C06", "C07", "C09", "C10"])
def _(self: "J1939_22", mid: "MessageId", dest_address: "int", data: "octets", timestamp: "real"):
    requires(inv22(self), frame22_ok(mid, dest_address, data))
    bycontract("J1939_22._buffer_hash", "J1939_22.__send_tp_abort", "J1939_22.__send_tp_cts", "J1939_22.__send_tp_eom_ack")
    let("n0", len(trace))
    let("send", self.__send_message)
    let("wake", self.__job_thread_wakeup)
    let("notify", self.__notify_subscribers)
    let("src", mid.source_address)
    let("full", len(data) >= 12)
    let("ctl", bits(data[0], 0, 4))
    let("sn", bits(data[0], 4, 4))
    let("size", le3(data[1], data[2], data[3]))
    let("seg", le3(data[4], data[5], data[6]))
    let("pgn", le3(data[9], data[10], data[11]))
    let("rkey", hash22(sn, src, dest_address))
    let("skey", hash22(sn, dest_address, src))
    let("r_has", has_key(self._rcv_buffer, rkey))
    let("s_has", has_key(self._snd_buffer, skey))
    raises("RuntimeError", when=full and ctl != FD_RTS and ctl != FD_CTS and ctl != FD_EOMS and ctl != FD_EOMA and ctl != FD_BAM and ctl != FD_ABORT,
           post=inv22(self) and len(trace) == n0, label="C07.fd.cm.unknown_control")
    ensures("C07.inv22.cm", inv22(self))
    # inbound traffic never takes or returns one of the stack's own session numbers
    ensures("C10.fd.inbound.cm", pools_same(self))
    ensures("C02.cm.frame", table_same_except(self._snd_buffer), table_same_except(self._rcv_buffer, rkey),
            table_same_except(self._multi_pg_snd_buffer))
    # too short for a connection-management frame: ignored
    ensures("C07.fd.cm.short", implies(not full, len(trace) == n0 and table_same_except(self._rcv_buffer)))

    # ---------------- RTS
    let("rts", full and ctl == FD_RTS)
    let("grant", mn(self._max_cmdt_packets, mn(data[7], seg)))
    ensures("C02.cm.rts.busy", implies(rts and r_has,
            len(trace) == n0 + 1 and is_fd_sent(trace[-1], send, fd_cm_id(7, src, dest_address), fd_cm(FD_ABORT, sn, 0xFFFFFF, 0xFFFFFF, 0xFF, ABORT_BUSY, pgn))
            and table_same_except(self._rcv_buffer)))
    ensures("C02.cm.rts.open", implies(rts and not r_has,
            has_key(self._rcv_buffer, rkey)
            and self._rcv_buffer[rkey]['pgn'] == pgn and self._rcv_buffer[rkey]['session'] == sn
            and self._rcv_buffer[rkey]['message_size'] == size and self._rcv_buffer[rkey]['num_segments'] == seg
            and self._rcv_buffer[rkey]['next_packet'] == 1
            and self._rcv_buffer[rkey]['next_cts_border'] == grant and self._rcv_buffer[rkey]['num_segments_max_rec'] == grant
            and len(self._rcv_buffer[rkey]['data']) == 0
            and self._rcv_buffer[rkey]['src_address'] == src and self._rcv_buffer[rkey]['dest_address'] == dest_address
            and old(clock) + T2 <= self._rcv_buffer[rkey]['deadline'] and self._rcv_buffer[rkey]['deadline'] <= clock + T2))
    # the reply is a CTS for segment 1 that never grants more than the RTS allows, than the own maximum, or than there are
    ensures("C09.fd.grant.rts", implies(rts and not r_has,
            len(trace) == n0 + 2
            and is_fd_sent(trace[n0], send, fd_cm_id(7, src, dest_address), fd_cm(FD_CTS, sn, 0xFFFFFF, 1, grant, 0, pgn))
            and grant <= data[7] and grant <= self._max_cmdt_packets and grant <= seg
            and trace[n0 + 1].fn == wake))

    # ---------------- CTS (we are the originator of the session (dest_address -> src))
    let("cts", full and ctl == FD_CTS)
    ensures("C02.cm.cts.unknown", implies(cts and not s_has,
            len(trace) == n0 + 1 and is_fd_sent(trace[-1], send, fd_cm_id(7, src, dest_address), fd_cm(FD_ABORT, sn, 0xFFFFFF, 0xFFFFFF, 0xFF, ABORT_RESOURCES, pgn))))
    # hold: a CTS for zero segments only extends the wait
    ensures("C09.fd.hold", implies(cts and s_has and data[7] == 0,
            len(trace) == n0 + 1 and trace[-1].fn == wake
            and old(clock) + TH <= self._snd_buffer[skey]['deadline'] and self._snd_buffer[skey]['deadline'] <= clock + TH
            and unchanged(self._snd_buffer[skey]['state'], self._snd_buffer[skey]['next_packet_to_send'])))
    let("s_wait", s_has and old(self._snd_buffer[skey]['state']) == S22_WAITING_CTS)
    let("nall", old(self._snd_buffer[skey]['num_segments']))
    # a CTS is only acted upon while the session waits for one and only for a segment that exists
    ensures("C07.fd.cm.cts.unexpected", implies(cts and s_has and data[7] != 0 and not (s_wait and 1 <= seg and seg <= nall),
            len(trace) == n0
            and unchanged(self._snd_buffer[skey]['state'], self._snd_buffer[skey]['next_packet_to_send'], self._snd_buffer[skey]['deadline'])))
    # grant: transmission resumes at the requested segment; the window end is never beyond what was granted, the own
    # maximum, or the last segment
    let("n_eff", mn(mn(data[7], self._max_cmdt_packets), nall - (seg - 1)))
    ensures("C09.fd.cts.grant", implies(cts and s_wait and data[7] != 0 and 1 <= seg and seg <= nall,
            self._snd_buffer[skey]['state'] == S22_SENDING_RTS_CTS
            and self._snd_buffer[skey]['next_packet_to_send'] == seg - 1
            and self._snd_buffer[skey]['next_wait_on_cts'] == seg - 1 + n_eff - 1
            and self._snd_buffer[skey]['next_wait_on_cts'] - self._snd_buffer[skey]['next_packet_to_send'] + 1 <= data[7]
            and old(clock) <= self._snd_buffer[skey]['deadline'] and self._snd_buffer[skey]['deadline'] <= clock
            and len(trace) == n0 + 1 and trace[-1].fn == wake))
    ensures("C02.cm.cts.frame", implies(cts, table_same_except(self._rcv_buffer)))

    # ---------------- end-of-message status: the only place a reassembled message is delivered
    let("eoms", full and ctl == FD_EOMS)
    let("rsize", old(self._rcv_buffer[rkey]['message_size']))
    let("rbuf", old(self._rcv_buffer[rkey]['data']))
    let("rpgn", old(self._rcv_buffer[rkey]['pgn']))
    let("ok", r_has and rsize == size and old(self._rcv_buffer[rkey]['num_segments']) == seg and len(rbuf) == size)
    ensures("C02.cm.eoms.foreign", implies(eoms and not r_has, len(trace) == n0 and table_same_except(self._rcv_buffer)))
    # complete and matching: delivered exactly once, byte-identical to the reassembly buffer, session removed in the same call
    ensures("C02.deliver_once", implies(eoms and ok,
            not has_key(self._rcv_buffer, rkey)
            and len(trace) == n0 + ite(dest_address != 255, 2, 1)
            and is_fd_delivery(trace[n0], notify, mid.priority, rpgn, src, dest_address, timestamp)
            and len(trace[n0].l5) == size and forall(lambda i: trace[n0].l5[i] == rbuf[i], 0, size)))
    ensures("C03.fd.eoma", implies(eoms and ok and dest_address != 255,
            is_fd_sent(trace[n0 + 1], send, fd_cm_id(7, src, dest_address), fd_cm(FD_EOMA, sn, size, seg, 0xFF, 0xFF, rpgn))))
    # incomplete (a segment was lost) or not matching the announce: nothing is delivered, the session is aborted and removed
    ensures("C06.fd.no_partial", implies(eoms and r_has and not ok,
            not has_key(self._rcv_buffer, rkey) and len(trace) == n0 + 1
            and is_fd_sent(trace[-1], send, fd_cm_id(7, src, dest_address), fd_cm(FD_ABORT, sn, 0xFFFFFF, 0xFFFFFF, 0xFF, ABORT_RESOURCES, rpgn))))

    # ---------------- end-of-message acknowledge: reported to the originator's listeners, session finished
    let("eoma", full and ctl == FD_EOMA)
    let("s_bcast", s_has and old(self._snd_buffer[skey]['dest_address']) == 255)
    ensures("C02.cm.eoma.unknown", implies(eoma and not s_has,
            len(trace) == n0 + 1 and is_fd_sent(trace[-1], send, fd_cm_id(7, src, dest_address), fd_cm(FD_ABORT, sn, 0xFFFFFF, 0xFFFFFF, 0xFF, ABORT_RESOURCES, pgn))))
    ensures("C07.fd.cm.eoma.bcast", implies(eoma and s_bcast, len(trace) == n0
            and unchanged(self._snd_buffer[skey]['state'], self._snd_buffer[skey]['deadline'])))
    ensures("C02.cm.eoma.finish", implies(eoma and s_has and not s_bcast,
            len(trace) == n0 + 2
            and is_fd_delivery(trace[n0], notify, mid.priority, pgn, src, dest_address, timestamp) and same_list(trace[n0].l5, data)
            and trace[n0 + 1].fn == wake
            and self._snd_buffer[skey]['state'] == S22_EOMA_RECEIVED
            and old(clock) <= self._snd_buffer[skey]['deadline'] and self._snd_buffer[skey]['deadline'] <= clock))
    ensures("C02.cm.eoma.frame", implies(eoma, table_same_except(self._rcv_buffer)))

    # ---------------- BAM announce: opens a broadcast receive session, never answers
    let("bam", full and ctl == FD_BAM)
    ensures("C02.cm.bam.open", implies(bam and not r_has,
            has_key(self._rcv_buffer, rkey)
            and self._rcv_buffer[rkey]['pgn'] == pgn and self._rcv_buffer[rkey]['session'] == sn
            and self._rcv_buffer[rkey]['message_size'] == size and self._rcv_buffer[rkey]['num_segments'] == seg
            and self._rcv_buffer[rkey]['next_packet'] == 1 and len(self._rcv_buffer[rkey]['data']) == 0
            and self._rcv_buffer[rkey]['src_address'] == src and self._rcv_buffer[rkey]['dest_address'] == dest_address
            and old(clock) + T1 <= self._rcv_buffer[rkey]['deadline'] and self._rcv_buffer[rkey]['deadline'] <= clock + T1
            and len(trace) == n0 + 1 and trace[-1].fn == wake))
    # a second announce under a session number still in use ends that session; nothing of it is ever delivered
    ensures("C02.cm.bam.busy", implies(bam and r_has, not has_key(self._rcv_buffer, rkey) and len(trace) == n0))

    # ---------------- abort from the peer: a session still waiting for a CTS is finished at once
    let("abort", full and ctl == FD_ABORT)
    ensures("C06.fd.cm.abort", implies(abort,
            table_same_except(self._rcv_buffer)
            and implies(s_wait, self._snd_buffer[skey]['state'] == S22_FINISHED
                        and old(clock) <= self._snd_buffer[skey]['deadline'] and self._snd_buffer[skey]['deadline'] <= clock
                        # wake-up discipline: a deadline that was moved forward must wake the background thread
                        and len(trace) == n0 + 1 and trace[-1].fn == wake)
            and implies(s_has and not s_wait, len(trace) == n0 and unchanged(self._snd_buffer[skey]['state'], self._snd_buffer[skey]['deadline']))
            and implies(not s_has, len(trace) == n0)))


@unit("j1939.j1939_22:J1939_22._process_tp_dt", props=["C02", "C03", "C06", "C07", "C09", "C10"])
def _(self: "J1939_22", mid: "MessageId", dest_address: "int", data: "octets", timestamp: "real"):
    requires(inv22(self), frame22_ok(mid, dest_address, data))
    bycontract("J1939_22._buffer_hash", "J1939_22.__send_tp_cts")
    let("n0", len(trace))
    let("send", self.__send_message)
    let("wake", self.__job_thread_wakeup)
    let("notify", self.__notify_subscribers)
    let("src", mid.source_address)
    let("long", len(data) > 4)
    let("sn", bits(data[0], 4, 4))
    let("seg", le3(data[1], data[2], data[3]))
    let("key", hash22(sn, src, dest_address))
    let("has", has_key(self._rcv_buffer, key))
    let("nextp", old(self._rcv_buffer[key]['next_packet']))
    let("taken", long and seg != 0 and has and nextp == seg)
    let("size", old(self._rcv_buffer[key]['message_size']))
    let("nseg", old(self._rcv_buffer[key]['num_segments']))
    let("buf0", old(self._rcv_buffer[key]['data']))
    let("got", len(buf0) + len(data) - 4)
    let("complete", taken and got >= size)
    let("cm_mode", dest_address != 255)
    let("border", old(self._rcv_buffer[key]['next_cts_border']))
    let("maxrec", old(self._rcv_buffer[key]['num_segments_max_rec']))
    let("has_win", old(has_key(self._rcv_buffer[key], 'next_cts_border')))
    let("window", taken and not complete and cm_mode and has_win and seg >= border)
    # a broadcast-shaped session with a specific destination (malformed BAM) has no window size
    raises("KeyError", when=taken and not complete and cm_mode and not has_win, post=inv22(self), label="C07.fd.dt.malformed_session")
    ensures("C07.inv22.dt", inv22(self))
    ensures("C10.fd.inbound.dt", pools_same(self))
    # a data frame never delivers anything (delivery waits for the end-of-message status), and never opens or closes a session
    ensures("C02.dt.frame", table_same_except(self._snd_buffer), table_same_except(self._rcv_buffer), table_same_except(self._multi_pg_snd_buffer),
            forall(lambda j: trace[j].fn != notify, n0, len(trace)))
    # too short, segment number 0, no session for (session number, source, destination), or not the segment expected next:
    # nothing at all happens (an out-of-order or repeated segment is never merged into the buffer)
    ensures("C06.fd.dt.ignored", implies(not taken, len(trace) == n0
            and implies(has, unchanged(self._rcv_buffer[key]['next_packet'], self._rcv_buffer[key]['deadline'])
                        and same_list(self._rcv_buffer[key]['data'], buf0))))
    # ---- reassembly: the buffer grows by exactly the data octets behind the 4-octet header, in order
    ensures("C02.reassemble", implies(taken and not complete,
            len(self._rcv_buffer[key]['data']) == got
            and forall(lambda i: self._rcv_buffer[key]['data'][i] == buf0[i], 0, len(buf0))
            and forall(lambda i: self._rcv_buffer[key]['data'][len(buf0) + i] == data[4 + i], 0, len(data) - 4)
            and self._rcv_buffer[key]['next_packet'] == seg + 1))
    # ---- last segment: cut to the announced size (the 0xFF fill of the last frame is dropped); waits for the status frame
    ensures("C02.reassemble.complete", implies(complete,
            len(self._rcv_buffer[key]['data']) == size
            and forall(lambda i: self._rcv_buffer[key]['data'][i] == ite(i < len(buf0), buf0[i], data[4 + i - len(buf0)]), 0, size)
            and self._rcv_buffer[key]['next_packet'] == seg + 1
            and len(trace) == n0 + 1 and trace[-1].fn == wake
            and implies(cm_mode, old(clock) + T1 <= self._rcv_buffer[key]['deadline'] and self._rcv_buffer[key]['deadline'] <= clock + T1)))
    # ---- window exhausted: the next CTS never grants more than the window or than remain
    ensures("C09.fd.grant.dt", implies(window,
            len(trace) == n0 + 2
            and is_fd_sent(trace[n0], send, fd_cm_id(7, src, dest_address),
                           fd_cm(FD_CTS, sn, 0xFFFFFF, border + 1, mn(maxrec, nseg - border), 0, old(self._rcv_buffer[key]['pgn'])))
            and mn(maxrec, nseg - border) <= maxrec and mn(maxrec, nseg - border) <= nseg - border
            and trace[n0 + 1].fn == wake
            and self._rcv_buffer[key]['next_cts_border'] == mn(border + maxrec, nseg)
            and old(clock) + T2 <= self._rcv_buffer[key]['deadline'] and self._rcv_buffer[key]['deadline'] <= clock + T2))
    ensures("C06.fd.arm.dt", implies(taken and not complete and not window and (not cm_mode or has_win),
            len(trace) == n0 and old(clock) + T1 <= self._rcv_buffer[key]['deadline'] and self._rcv_buffer[key]['deadline'] <= clock + T1))
