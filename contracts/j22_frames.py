# J1939-22 (CAN FD): FD.TP.CM / FD.TP.DT frame builders against the independent layouts of specs/j22_spec.py (C03, C02)

@unit("j1939.j1939_22:J1939_22.__send_tp_cm", props=["C02", "C03"])
def _(self: "J1939_22", src_address: "int", dest_address: "int", TpControlType: "int", session_num: "int", message_size: "int",
      num_segments: "int", byte_7: "int", byte_8: "int", pgn: "int", priority: "int"):
    requires(-2**40 <= src_address < 2**40, -2**40 <= dest_address < 2**40, 0 <= TpControlType < 2**16, 0 <= session_num < 2**16,
             0 <= message_size < 2**24, 0 <= num_segments < 2**24, 0 <= byte_7 < 2**24, 0 <= byte_8 < 2**24, 0 <= pgn < 2**24,
             -2**40 <= priority < 2**40)
    modifies(trace)
    ensures("C03.fd.cm", len(trace) == old(len(trace)) + 1,
            is_fd_sent(trace[-1], self.__send_message, fd_cm_id(priority, dest_address, src_address),
                       fd_cm(TpControlType, session_num, message_size, num_segments, byte_7, byte_8, pgn)))
    # size, segment and PGN fields decode (little endian) to the values given
    ensures("C03.fd.cm.rt", le3(trace[-1].l2[1], trace[-1].l2[2], trace[-1].l2[3]) == message_size,
            le3(trace[-1].l2[4], trace[-1].l2[5], trace[-1].l2[6]) == num_segments,
            le3(trace[-1].l2[9], trace[-1].l2[10], trace[-1].l2[11]) == pgn,
            bits(trace[-1].l2[0], 0, 4) == bits(TpControlType, 0, 4), bits(trace[-1].l2[0], 4, 4) == bits(session_num, 0, 4))


@unit("j1939.j1939_22:J1939_22.__send_tp_abort", props=["C02", "C03"])
def _(self: "J1939_22", src_address: "int", dest_address: "int", session_num: "int", reason: "int", pgn_value: "int"):
    requires(-2**40 <= src_address < 2**40, -2**40 <= dest_address < 2**40, 0 <= session_num < 16, 0 <= reason < 256, 0 <= pgn_value < 2**24)
    modifies(trace)
    ensures("C03.fd.abort", len(trace) == old(len(trace)) + 1,
            is_fd_sent(trace[-1], self.__send_message, fd_cm_id(7, dest_address, src_address),
                       fd_cm(FD_ABORT, session_num, 0xFFFFFF, 0xFFFFFF, 0xFF, reason, pgn_value)))


@unit("j1939.j1939_22:J1939_22.__send_tp_rts", props=["C02", "C03"])
def _(self: "J1939_22", priority: "int", src_address: "int", dest_address: "int", session_num: "int", pgn_value: "int",
      message_size: "int", num_segments: "int", max_cmdt_packets: "int", adt: "int"):
    requires(-2**40 <= src_address < 2**40, -2**40 <= dest_address < 2**40, 0 <= session_num < 16, 0 <= pgn_value < 2**24,
             0 <= message_size < 2**24, 0 <= num_segments < 2**24, 0 <= max_cmdt_packets < 256, 0 <= adt < 256, 0 <= priority <= 7)
    modifies(trace)
    ensures("C03.fd.rts", len(trace) == old(len(trace)) + 1,
            is_fd_sent(trace[-1], self.__send_message, fd_cm_id(priority, dest_address, src_address),
                       fd_cm(FD_RTS, session_num, message_size, num_segments, max_cmdt_packets, adt, pgn_value)))


@unit("j1939.j1939_22:J1939_22.__send_tp_cts", props=["C02", "C03"])
def _(self: "J1939_22", src_address: "int", dest_address: "int", session_num: "int", num_segments_that_can_be_sent: "int",
      next_packet: "int", pgn_value: "int"):
    requires(-2**40 <= src_address < 2**40, -2**40 <= dest_address < 2**40, 0 <= session_num < 16, 0 <= pgn_value < 2**24,
             0 <= num_segments_that_can_be_sent < 256, 0 <= next_packet <= 2**24)
    modifies(trace)
    ensures("C03.fd.cts", len(trace) == old(len(trace)) + 1,
            is_fd_sent(trace[-1], self.__send_message, fd_cm_id(7, dest_address, src_address),
                       fd_cm(FD_CTS, session_num, 0xFFFFFF, next_packet, num_segments_that_can_be_sent, 0, pgn_value)))


@unit("j1939.j1939_22:J1939_22.__send_tp_eom_status", props=["C02", "C03"])
def _(self: "J1939_22", src_address: "int", dest_address: "int", session_num: "int", message_size: "int", num_segments: "int",
      pgn_value: "int", size_of_assurance_data: "int", adt: "int"):
    requires(-2**40 <= src_address < 2**40, -2**40 <= dest_address < 2**40, 0 <= session_num < 16, 0 <= pgn_value < 2**24,
             0 <= message_size < 2**24, 0 <= num_segments < 2**24, 0 <= size_of_assurance_data < 256, 0 <= adt < 256)
    modifies(trace)
    ensures("C03.fd.eoms", len(trace) == old(len(trace)) + 1,
            is_fd_sent(trace[-1], self.__send_message, fd_cm_id(7, dest_address, src_address),
                       fd_cm(FD_EOMS, session_num, message_size, num_segments, size_of_assurance_data, adt, pgn_value)))


@unit("j1939.j1939_22:J1939_22.__send_tp_eom_ack", props=["C02", "C03"])
def _(self: "J1939_22", src_address: "int", dest_address: "int", session_num: "int", message_size: "int", num_segments: "int",
      pgn_value: "int"):
    requires(-2**40 <= src_address < 2**40, -2**40 <= dest_address < 2**40, 0 <= session_num < 16, 0 <= pgn_value < 2**24,
             0 <= message_size < 2**24, 0 <= num_segments < 2**24)
    modifies(trace)
    ensures("C03.fd.eoma", len(trace) == old(len(trace)) + 1,
            is_fd_sent(trace[-1], self.__send_message, fd_cm_id(7, dest_address, src_address),
                       fd_cm(FD_EOMA, session_num, message_size, num_segments, 0xFF, 0xFF, pgn_value)))


@unit("j1939.j1939_22:J1939_22.__send_tp_bam", props=["C02", "C03"])
def _(self: "J1939_22", priority: "int", src_address: "int", session_num: "int", pgn_value: "int", message_size: "int",
      num_segments: "int"):
    requires(-2**40 <= src_address < 2**40, 0 <= session_num < 16, 0 <= pgn_value < 2**24, 0 <= message_size < 2**24,
             0 <= num_segments < 2**24, 0 <= priority <= 7)
    modifies(trace)
    ensures("C03.fd.bam", len(trace) == old(len(trace)) + 1,
            is_fd_sent(trace[-1], self.__send_message, fd_cm_id(priority, 255, src_address),
                       fd_cm(FD_BAM, session_num, message_size, num_segments, 0xFF, 0, pgn_value)))


# FD.TP.DT: header (session nibble, 24-bit segment number), the segment octets, 0xFF fill to a legal CAN FD length.
# The frame is built in a new list: the segment handed in (the one stored in the session) is not modified (frame condition).
@unit("j1939.j1939_22:J1939_22.__send_tp_dt", props=["C02", "C03"])
def _(self: "J1939_22", src_address: "int", dest_address: "int", session_num: "int", segment_num: "int", data: "octets", Dtfi: "int"):
    requires(lut_ok(self), -2**40 <= src_address < 2**40, -2**40 <= dest_address < 2**40,
             0 <= session_num < 2**16, 0 <= segment_num < 2**24, 0 <= Dtfi < 2**16)
    # (a segment is at most 60 octets - C02.accept.segments; anything beyond would be cut off)
    let("n", mn(len(data), 60))
    let("payload", old(data))
    modifies(trace)
    ensures("C03.fd.dt", len(trace) == old(len(trace)) + 1,
            trace[-1].fn == self.__send_message and trace[-1].n == 3 and trace[-1].i0 == fd_dt_id(dest_address, src_address)
            and trace[-1].b1 == True and trace[-1].b_fd_format == True,
            # legal CAN FD length (C03.fd.dlc)
            len(trace[-1].l2) == fd_len(4 + n),
            trace[-1].l2[0] == bits(Dtfi, 0, 4) + bits(session_num, 0, 4) * 16,
            le3(trace[-1].l2[1], trace[-1].l2[2], trace[-1].l2[3]) == segment_num,
            forall(lambda i: trace[-1].l2[4 + i] == payload[i], 0, n),
            forall(lambda i: trace[-1].l2[i] == 255, 4 + n, fd_len(4 + n)))
