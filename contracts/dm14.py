# DM14 memory access (C17 value conversion and frame layouts, C18 key check / errors / recovery, C19 busy guard)

# ------------------------------------------------------------------ value <-> octet conversion (Dm14Query)

@unit("j1939.Dm14Query:Dm14Query._values_to_bytes", props=["C17"])
def _(self: "Dm14Query", values: "list(int)"):
    requires(self.object_byte_size == 1 or self.object_byte_size == 2 or self.object_byte_size == 4 or self.object_byte_size == 8,
             forall(lambda i: 0 <= values[i] and values[i] < ite(self.object_byte_size == 1, 256, ite(self.object_byte_size == 2, 65536,
                                                            ite(self.object_byte_size == 4, 2 ** 32, 2 ** 64))), 0, len(values)))
    cases(self.object_byte_size, [1, 2, 4, 8])
    returns("octets")
    invariant(1, _i1 <= len(values), len(bytes) == self.object_byte_size * _i1, octets(bytes),
              forall(lambda j: le_unsigned(bytes, self.object_byte_size * j, self.object_byte_size) == values[j], 0, _i1))
    # (stepping stones for the prover: the low k+1 octets of a number are its low k octets plus octet k)
    body_ensures(1, "C17.values_to_bytes.step",
                 lemma(len(bytes) == at_head(len(bytes)) + self.object_byte_size),
                 lemma(forall(lambda k: bytes[k] == at_head(bytes)[k], 0, at_head(len(bytes)))),
                 lemma(val % 65536 == val % 256 + ((val // 256) % 256) * 256),
                 lemma(val % 2 ** 24 == val % 65536 + ((val // 65536) % 256) * 65536),
                 lemma(val % 2 ** 32 == val % 2 ** 24 + ((val // 2 ** 24) % 256) * 2 ** 24),
                 lemma(val % 2 ** 40 == val % 2 ** 32 + ((val // 2 ** 32) % 256) * 2 ** 32),
                 lemma(val % 2 ** 48 == val % 2 ** 40 + ((val // 2 ** 40) % 256) * 2 ** 40),
                 lemma(val % 2 ** 56 == val % 2 ** 48 + ((val // 2 ** 48) % 256) * 2 ** 48),
                 lemma(val % 2 ** 64 == val % 2 ** 56 + ((val // 2 ** 56) % 256) * 2 ** 56),
                 lemma(le_unsigned(bytes, at_head(len(bytes)), self.object_byte_size) == val))
    # every value becomes its s octets, little endian, in order: exactly the octets that decode to the value again
    ensures("C17.values_to_bytes", len(result) == self.object_byte_size * len(values), octets(result),
            forall(lambda j: le_unsigned(result, self.object_byte_size * j, self.object_byte_size) == values[j], 0, len(values)))
    ensures("C17.values_to_bytes.frame", same_list(values, old(values)))


@unit("j1939.Dm14Query:Dm14Query._bytes_to_values", props=["C17"])
def _(self: "Dm14Query", raw_bytes: "octets"):
    requires(self.object_byte_size == 1 or self.object_byte_size == 2 or self.object_byte_size == 4 or self.object_byte_size == 8,
             octets(raw_bytes))
    cases(self.object_byte_size, [1, 2, 4, 8])
    returns("list(int)")
    invariant(1, _i1 <= len(raw_bytes) // self.object_byte_size, len(values) == _i1,
              forall(lambda j: values[j] == ite(self.signed, le_signed(raw_bytes, self.object_byte_size * j, self.object_byte_size), le_unsigned(raw_bytes, self.object_byte_size * j, self.object_byte_size)), 0, _i1))
    # object j is decoded from octets [s*j, s*j+s): little endian, two's complement when signed; trailing octets are dropped
    ensures("C17.bytes_to_values", len(result) == len(raw_bytes) // self.object_byte_size,
            forall(lambda j: result[j] == ite(self.signed, le_signed(raw_bytes, self.object_byte_size * j, self.object_byte_size), le_unsigned(raw_bytes, self.object_byte_size * j, self.object_byte_size)),
                   0, len(raw_bytes) // self.object_byte_size))
    ensures("C17.bytes_to_values.frame", same_list(raw_bytes, old(raw_bytes)))


# ------------------------------------------------------------------ frames of the client (Dm14Query)

def is_ca_send(ev, ca, pf, dest, prio):
    # one call ca.send_pgn(0, pf, dest, prio, data)
    return (ev.fn == fn("ControllerApplication.send_pgn") and ev.n == 6 and ev.o0 == ca and ev.i1 == 0 and ev.i2 == pf
            and ev.i3 == dest and ev.i4 == prio)


@unit("j1939.Dm14Query:Dm14Query._send_dm14", props=["C17", "C18"])
def _(self: "Dm14Query", key_or_user_level: "int"):
    requires(0 <= self.address < 2**32, 0 <= self.object_count <= 255, 0 <= self.direct <= 1, 0 <= key_or_user_level <= 0xFFFF,
             0 <= self._dest_address <= 255)
    opaque("ControllerApplication.send_pgn")
    let("n0", len(trace))
    # number of objects, command / pointer type, 32-bit pointer (little endian), key or user level (little endian): to the server
    ensures("C17.dm14.layout", len(trace) == n0 + 1, is_ca_send(trace[-1], self._ca, 0xD9, self._dest_address, 6),
            trace[-1].l5 == [self.object_count, dm14_octet1(self.direct, self.command.value),
                             le_octet(self.address, 0), le_octet(self.address, 1), le_octet(self.address, 2), le_octet(self.address, 3),
                             le_octet(key_or_user_level, 0), le_octet(key_or_user_level, 1)])
    ensures("C17.dm14.pointer_rt", le4(trace[-1].l5[2], trace[-1].l5[3], trace[-1].l5[4], trace[-1].l5[5]) == self.address,
            le2(trace[-1].l5[6], trace[-1].l5[7]) == key_or_user_level)


@unit("j1939.Dm14Query:Dm14Query._send_dm16", props=["C17"])
def _(self: "Dm14Query"):
    requires(octets(self.bytes), 0 <= self._dest_address <= 255)
    opaque("ControllerApplication.send_pgn")
    let("n0", len(trace))
    let("n", len(self.bytes))
    invariant(1, _i1 <= n, len(data) == 1 + _i1, data[0] == ite(n > 7, 0xFF, n),
              forall(lambda j: data[1 + j] == self.bytes[j], 0, _i1))
    # count octet (0xFF above 7 octets), then exactly the octets to be written, in order
    ensures("C17.dm16.client", len(trace) == n0 + 1, is_ca_send(trace[-1], self._ca, 0xD7, self._dest_address, 6),
            len(trace[-1].l5) == 1 + n, trace[-1].l5[0] == ite(n > 7, 0xFF, n),
            forall(lambda j: trace[-1].l5[1 + j] == self.bytes[j], 0, n))


@unit("j1939.Dm14Query:Dm14Query._parse_dm16", props=["C17"])
def _(self: "Dm14Query", priority: "int", pgn: "int", sa: "int", timestamp: "real", data: "octets"):
    requires(octets(data))
    opaque("ControllerApplication.subscribe", "ControllerApplication.unsubscribe")
    let("n0", len(trace))
    let("mine", pgn == PGN_DM16 and sa == self._dest_address)
    let("n", mn(data[0], len(data) - 1))
    raises("IndexError", when=mine and len(data) == 0, label="C17.dm16.empty")
    # foreign frames are ignored
    ensures("C17.dm16.foreign", implies(not mine, len(trace) == n0 and unchanged(self.state)))
    # the data octets behind the count octet are kept for the caller: exactly data[1 : 1+count] (all of them above 7 octets)
    ensures("C17.dm16.take", implies(mine,
            not is_none(self.mem_data) and len(self.mem_data) == ite(n < 0, 0, n)
            and forall(lambda j: self.mem_data[j] == data[1 + j], 0, n)
            and self.state == QueryState.WAIT_FOR_OPER_COMPLETE
            and len(trace) == n0 + 2
            and trace[n0].fn == fn("ControllerApplication.unsubscribe") and trace[n0].o0 == self._ca and trace[n0].f1 == method(self, "_parse_dm16")
            and trace[n0 + 1].fn == fn("ControllerApplication.subscribe") and trace[n0 + 1].o0 == self._ca and trace[n0 + 1].f1 == method(self, "_parse_dm15")))


# ------------------------------------------------------------------ server (DM14Server)

def is_dm15_call(ev, srv, length, direct, status, state, count, sa):
    # one call srv._send_dm15(length, direct, status, state, object_count, sa, ...)
    return (ev.fn == fn("DM14Server._send_dm15") and ev.o0 == srv and ev.i1 == length and ev.i2 == direct and ev.i3 == status
            and ev.i4 == state.value and ev.i5 == count and ev.i6 == sa)


def dm14_guard(srv, sa, data):
    # a transaction with another requester, or for another pointer, is running - or the application said "busy"
    return ((not is_none(srv.sa) and sa != srv.sa)
            or (not is_none(srv.address) and not same_list(srv.address, data[2:srv.length - 2]))
            or srv._busy)


@unit("j1939.Dm14Server:DM14Server.parse_dm14", props=["C19", "C17", "C18"])
def _(self: "DM14Server", priority: "int", pgn: "int", sa: "int", timestamp: "real", data: "octets"):
    requires(octets(data), len(data) == 8, 0 <= sa <= 255, self.length == 8, 0 <= self.error < 2**24)
    opaque("DM14Server._send_dm15", "ControllerApplication.unsubscribe")
    let("n0", len(trace))
    let("dm14", pgn == PGN_DM14)
    let("guard", old(dm14_guard(self, sa, data)))
    let("st0", old(self.state))
    raises("ValueError", when=dm14 and not guard and st0 != ResponseState.IDLE and st0 != ResponseState.WAIT_FOR_KEY
           and st0 != ResponseState.WAIT_OPERATION_COMPLETE, label="C19.dm14.invalid_state")
    ensures("C19.dm14.foreign_pgn", implies(not dm14, len(trace) == n0 and unchanged(self.state, self.sa, self._busy)))
    # ---- C19: a request from another source address, or for another pointer, while a transaction is running (or while the
    # application reports busy) is answered with DM15 'operation failed' (error 2 = busy unless the application set one)
    # addressed to the requester that sent it; the running transaction's state, requester, pointer and data are untouched
    ensures("C19.guard", implies(dm14 and guard,
            len(trace) == n0 + 1
            and is_dm15_call(trace[-1], self, 8, bits(data[1], 4, 4), DM15_OPERATION_FAILED, ResponseState.SEND_ERROR, data[0], sa)
            and trace[-1].i8 == ite(old(self.error) != 0, old(self.error), 2) and trace[-1].i9 == 7
            and unchanged(self.state, self.sa, self.length, self.direct) and self._busy == False
            and implies(not is_none(old(self.address)), not is_none(self.address) and same_list(self.address, old(self.address)))
            and same_list(self.data, old(self.data))))
    # ---- first DM14 of a transaction: the application-visible fields are exactly what the client asked for
    ensures("C17.dm14.extract", implies(dm14 and not guard and st0 == ResponseState.IDLE,
            self.sa == sa and self.object_count == data[0] and self.pointer_type == bits(data[1], 4, 1)
            and implies(bits(data[1], 0, 1) == 1, self.command == bits(data[1], 1, 3))
            and not is_none(self.address) and len(self.address) == 4 and forall(lambda i: self.address[i] == data[2 + i], 0, 4)
            and self.access_level == le2(data[6], data[7])
            and self.length == 8 and self.direct == bits(data[1], 4, 4)))
    # with a seed/key algorithm the request is not released yet: a seed is sent and the key awaited
    ensures("C18.dm14.seed_first", implies(dm14 and not guard and st0 == ResponseState.IDLE,
            ite(is_none(self._key_from_seed),
                self.state == ResponseState.SEND_PROCEED and len(trace) == n0,
                self.state == ResponseState.WAIT_FOR_KEY and len(trace) == n0 + 1
                and is_dm15_call(trace[-1], self, 8, bits(data[1], 4, 4), DM15_PROCEED, ResponseState.WAIT_FOR_KEY, data[0], sa))))
    # key frame: the key the client returned is kept for the check
    ensures("C18.dm14.key", implies(dm14 and not guard and st0 == ResponseState.WAIT_FOR_KEY,
            self.state == ResponseState.SEND_PROCEED and self.key == le2(data[6], data[7]) and len(trace) == n0
            and unchanged(self.sa)))
    # closing DM14 (operation completed): the server is idle again and accepts any requester
    ensures("C17.dm14.close", implies(dm14 and not guard and st0 == ResponseState.WAIT_OPERATION_COMPLETE,
            self.state == ResponseState.IDLE and is_none(self.sa) and len(trace) == n0 + 1
            and trace[-1].fn == fn("ControllerApplication.unsubscribe") and trace[-1].o0 == self._ca
            and trace[-1].f1 == method(self, "parse_dm14")))


@unit("j1939.Dm14Server:DM14Server._send_dm16", props=["C17"])
def _(self: "DM14Server"):
    requires(octets(self.data), not is_none(self.sa), 0 <= self.sa <= 255, 0 <= self.length <= 8)
    opaque("ControllerApplication.send_pgn", "ControllerApplication.subscribe")
    let("n0", len(trace))
    let("n", len(self.data))
    invariant(1, _i1 <= n, len(data) == 1 + _i1, data[0] == ite(n > 7, 0xFF, n),
              forall(lambda j: data[1 + j] == self.data[j], 0, _i1))
    # count octet (0xFF above 7 octets), exactly the octets the application supplied, in order, 0xFF fill up to the frame length
    ensures("C17.dm16.server", is_ca_send(trace[-1], self._ca, 0xD7, self.sa, 7),
            len(trace[-1].l5) == ite(self.length - n - 1 > 0, self.length, 1 + n), trace[-1].l5[0] == ite(n > 7, 0xFF, n),
            forall(lambda j: trace[-1].l5[1 + j] == self.data[j], 0, n),
            forall(lambda j: trace[-1].l5[j] == 0xFF, 1 + n, len(trace[-1].l5)),
            len(trace) == n0 + ite(n > 8, 2, 1))


@unit("j1939.Dm14Server:DM14Server.verify_key", props=["C18"])
def _(self: "DM14Server", seed: "int", key: "int"):
    requires(not is_none(self._key_from_seed))
    returns("bool")
    # the key is accepted exactly when it is what the configured algorithm derives from the seed that was sent
    ensures("C18.verify_key", result == (self._key_from_seed(seed) == key))


@unit("j1939.Dm14Server:DM14Server.generate_seed", props=["C18"])
def _(self: "DM14Server"):
    returns("int")
    # a seed is 16 bits and never one of the two reserved values (0xFFFF = no key required, 0 = key exchange complete)
    ensures("C18.seed.range", 0 < result, result < 0xFFFF)
