# DM14 memory access (C17 value conversion and frame layouts, C18 key check / errors / recovery, C19 busy guard)

# ------------------------------------------------------------------ value <-> octet conversion (Dm14Query)

@unit("j1939.Dm14Query:Dm14Query._values_to_bytes", replay="native", props=["C17"])
def _(self: "Dm14Query", values: "list(int)"):
    requires(self.object_byte_size == 1 or self.object_byte_size == 2 or self.object_byte_size == 4 or self.object_byte_size == 8,
             forall(lambda i: 0 <= values[i] and values[i] < ite(self.object_byte_size == 1, 256, ite(self.object_byte_size == 2, 65536,
                                                            ite(self.object_byte_size == 4, 2 ** 32, 2 ** 64))), 0, len(values)))
    cases(self.object_byte_size, [1, 2, 4, 8])
    returns("octets")
    invariant(1, _i1 <= len(values), len(bytes) == self.object_byte_size * _i1, octets(bytes),
              forall(lambda j: le_unsigned(bytes, self.object_byte_size * j, self.object_byte_size) == values[j], 0, _i1))
    # (stepping stones for the prover: the low k+1 octets of a number are its low k octets plus octet k)
    body_ensures(1, "C17.values_to_bytes.step",
                 lemma(len(bytes) == at_head(len(bytes)) + self.object_byte_size),
                 lemma(forall(lambda k: bytes[k] == at_head(bytes)[k], 0, at_head(len(bytes)))),
                 lemma(val % 65536 == val % 256 + ((val // 256) % 256) * 256),
                 lemma(val % 2 ** 24 == val % 65536 + ((val // 65536) % 256) * 65536),
                 lemma(val % 2 ** 32 == val % 2 ** 24 + ((val // 2 ** 24) % 256) * 2 ** 24),
                 lemma(val % 2 ** 40 == val % 2 ** 32 + ((val // 2 ** 32) % 256) * 2 ** 32),
                 lemma(val % 2 ** 48 == val % 2 ** 40 + ((val // 2 ** 40) % 256) * 2 ** 40),
                 lemma(val % 2 ** 56 == val % 2 ** 48 + ((val // 2 ** 48) % 256) * 2 ** 48),
                 lemma(val % 2 ** 64 == val % 2 ** 56 + ((val // 2 ** 56) % 256) * 2 ** 56),
                 lemma(le_unsigned(bytes, at_head(len(bytes)), self.object_byte_size) == val))
    # every value becomes its s octets, little endian, in order: exactly the octets that decode to the value again
    ensures("C17.values_to_bytes", len(result) == self.object_byte_size * len(values), octets(result),
            forall(lambda j: le_unsigned(result, self.object_byte_size * j, self.object_byte_size) == values[j], 0, len(values)))
    ensures("C17.values_to_bytes.frame", same_list(values, old(values)))


@unit("j1939.Dm14Query:Dm14Query._bytes_to_values", replay="native", props=["C17"])
def _(self: "Dm14Query", raw_bytes: "octets"):
    requires(self.object_byte_size == 1 or self.object_byte_size == 2 or self.object_byte_size == 4 or self.object_byte_size == 8,
             octets(raw_bytes))
    cases(self.object_byte_size, [1, 2, 4, 8])
    returns("list(int)")
    invariant(1, _i1 <= len(raw_bytes) // self.object_byte_size, len(values) == _i1,
              forall(lambda j: values[j] == ite(self.signed, le_signed(raw_bytes, self.object_byte_size * j, self.object_byte_size), le_unsigned(raw_bytes, self.object_byte_size * j, self.object_byte_size)), 0, _i1))
    # object j is decoded from octets [s*j, s*j+s): little endian, two's complement when signed; trailing octets are dropped
    ensures("C17.bytes_to_values", len(result) == len(raw_bytes) // self.object_byte_size,
            forall(lambda j: result[j] == ite(self.signed, le_signed(raw_bytes, self.object_byte_size * j, self.object_byte_size), le_unsigned(raw_bytes, self.object_byte_size * j, self.object_byte_size)),
                   0, len(raw_bytes) // self.object_byte_size))
    ensures("C17.bytes_to_values.frame", same_list(raw_bytes, old(raw_bytes)))


# ------------------------------------------------------------------ frames of the client (Dm14Query)

def is_ca_send(ev, ca, pf, dest, prio):
    # one call ca.send_pgn(0, pf, dest, prio, data)
    return (ev.fn == fn("ControllerApplication.send_pgn") and ev.n == 6 and ev.o0 == ca and ev.i1 == 0 and ev.i2 == pf
            and ev.i3 == dest and ev.i4 == prio)


@unit("j1939.Dm14Query:Dm14Query._send_dm14", props=["C17", "C18"])
def _(self: "Dm14Query", key_or_user_level: "int"):
    requires(0 <= self.address < 2**32, 0 <= self.object_count <= 255, 0 <= self.direct <= 1, 0 <= key_or_user_level <= 0xFFFF,
             0 <= self._dest_address <= 255)
    opaque("ControllerApplication.send_pgn")
    let("n0", len(trace))
    # number of objects, command / pointer type, 32-bit pointer (little endian), key or user level (little endian): to the server
    ensures("C17.dm14.layout", len(trace) == n0 + 1, is_ca_send(trace[-1], self._ca, 0xD9, self._dest_address, 6),
            trace[-1].l5 == [self.object_count, dm14_octet1(self.direct, self.command.value),
                             le_octet(self.address, 0), le_octet(self.address, 1), le_octet(self.address, 2), le_octet(self.address, 3),
                             le_octet(key_or_user_level, 0), le_octet(key_or_user_level, 1)])
    ensures("C17.dm14.pointer_rt", le4(trace[-1].l5[2], trace[-1].l5[3], trace[-1].l5[4], trace[-1].l5[5]) == self.address,
            le2(trace[-1].l5[6], trace[-1].l5[7]) == key_or_user_level)


@unit("j1939.Dm14Query:Dm14Query._send_dm16", props=["C17"])
def _(self: "Dm14Query"):
    requires(octets(self.bytes), 0 <= self._dest_address <= 255)
    opaque("ControllerApplication.send_pgn")
    let("n0", len(trace))
    let("n", len(self.bytes))
    invariant(1, _i1 <= n, len(data) == 1 + _i1, data[0] == ite(n > 7, 0xFF, n),
              forall(lambda j: data[1 + j] == self.bytes[j], 0, _i1))
    # count octet (0xFF above 7 octets), then exactly the octets to be written, in order
    ensures("C17.dm16.client", len(trace) == n0 + 1, is_ca_send(trace[-1], self._ca, 0xD7, self._dest_address, 6),
            len(trace[-1].l5) == 1 + n, trace[-1].l5[0] == ite(n > 7, 0xFF, n),
            forall(lambda j: trace[-1].l5[1 + j] == self.bytes[j], 0, n))


@unit("j1939.Dm14Query:Dm14Query._parse_dm16", props=["C17"])
def _(self: "Dm14Query", priority: "int", pgn: "int", sa: "int", timestamp: "real", data: "octets"):
    requires(octets(data))
    opaque("ControllerApplication.subscribe", "ControllerApplication.unsubscribe")
    let("n0", len(trace))
    let("mine", pgn == PGN_DM16 and sa == self._dest_address)
    let("n", mn(data[0], len(data) - 1))
    raises("IndexError", when=mine and len(data) == 0, label="C17.dm16.empty")
    # foreign frames are ignored
    ensures("C17.dm16.foreign", implies(not mine, len(trace) == n0 and unchanged(self.state)))
    # the data octets behind the count octet are kept for the caller: exactly data[1 : 1+count] (all of them above 7 octets)
    ensures("C17.dm16.take", implies(mine,
            not is_none(self.mem_data) and len(self.mem_data) == ite(n < 0, 0, n)
            and forall(lambda j: self.mem_data[j] == data[1 + j], 0, n)
            and self.state == QueryState.WAIT_FOR_OPER_COMPLETE
            and len(trace) == n0 + 2
            and trace[n0].fn == fn("ControllerApplication.unsubscribe") and trace[n0].o0 == self._ca and trace[n0].f1 == method(self, "_parse_dm16")
            and trace[n0 + 1].fn == fn("ControllerApplication.subscribe") and trace[n0 + 1].o0 == self._ca and trace[n0 + 1].f1 == method(self, "_parse_dm15")))


# ------------------------------------------------------------------ server (DM14Server)

def is_dm15_call(ev, srv, length, direct, status, state, count, sa):
    # one call srv._send_dm15(length, direct, status, state, object_count, sa, ...)
    return (ev.fn == fn("DM14Server._send_dm15") and ev.o0 == srv and ev.i1 == length and ev.i2 == direct and ev.i3 == status
            and ev.i4 == state.value and ev.i5 == count and ev.i6 == sa)


def dm14_guard(srv, sa, data):
    # a transaction with another requester, or for another pointer, is running - or the application said "busy"
    return ((not is_none(srv.sa) and sa != srv.sa)
            or (not is_none(srv.address) and not same_list(srv.address, data[2:srv.length - 2]))
            or srv._busy)


@unit("j1939.Dm14Server:DM14Server.parse_dm14", props=["C19", "C17", "C18"])
def _(self: "DM14Server", priority: "int", pgn: "int", sa: "int", timestamp: "real", data: "octets"):
    requires(octets(data), len(data) == 8, 0 <= sa <= 255, self.length == 8, 0 <= self.error < 2**24,
             implies(not is_none(self.address), len(self.address) == 4))
    opaque("DM14Server._send_dm15", "ControllerApplication.unsubscribe")
    modifies(trace, self.state, self.sa, self.address, self.length, self.direct, self.pgn, self.status, self.command, self.pointer_type,
             self.object_count, self.access_level, self.data, self.key, self._pgn, self._busy)
    let("n0", len(trace))
    let("dm14", pgn == PGN_DM14)
    let("guard", old(dm14_guard(self, sa, data)))
    let("st0", old(self.state))
    raises("ValueError", when=dm14 and not guard and st0 != ResponseState.IDLE and st0 != ResponseState.WAIT_FOR_KEY
           and st0 != ResponseState.WAIT_OPERATION_COMPLETE, label="C19.dm14.invalid_state")
    # the pointer kept is always the 4-octet pointer field
    ensures("C17.dm14.pointer_len", implies(not is_none(self.address), len(self.address) == 4), self.length == 8,
            0 <= self.error and self.error < 2 ** 24)
    ensures("C19.dm14.foreign_pgn", implies(not dm14, len(trace) == n0 and unchanged(self.state, self.sa, self._busy)))
    # ---- C19: a request from another source address, or for another pointer, while a transaction is running (or while the
    # application reports busy) is answered with DM15 'operation failed' (error 2 = busy unless the application set one)
    # addressed to the requester that sent it; the running transaction's state, requester, pointer and data are untouched
    ensures("C19.guard", implies(dm14 and guard,
            len(trace) == n0 + 1
            and is_dm15_call(trace[-1], self, 8, bits(data[1], 4, 4), DM15_OPERATION_FAILED, ResponseState.SEND_ERROR, data[0], sa)
            and trace[-1].i8 == ite(old(self.error) != 0, old(self.error), 2) and trace[-1].i9 == 7
            and unchanged(self.state, self.sa, self.length, self.direct) and self._busy == False
            and implies(not is_none(old(self.address)), not is_none(self.address) and same_list(self.address, old(self.address)))
            and same_list(self.data, old(self.data))))
    # ---- first DM14 of a transaction: the application-visible fields are exactly what the client asked for
    ensures("C17.dm14.extract", implies(dm14 and not guard and st0 == ResponseState.IDLE,
            self.sa == sa and self.object_count == data[0] and self.pointer_type == bits(data[1], 4, 1)
            and implies(bits(data[1], 0, 1) == 1, self.command == bits(data[1], 1, 3))
            and not is_none(self.address) and len(self.address) == 4 and forall(lambda i: self.address[i] == data[2 + i], 0, 4)
            and self.access_level == le2(data[6], data[7])
            and self.length == 8 and self.direct == bits(data[1], 4, 4)))
    # with a seed/key algorithm the request is not released yet: a seed is sent and the key awaited
    ensures("C18.dm14.seed_first", implies(dm14 and not guard and st0 == ResponseState.IDLE,
            ite(is_none(self._key_from_seed),
                self.state == ResponseState.SEND_PROCEED and len(trace) == n0,
                self.state == ResponseState.WAIT_FOR_KEY and len(trace) == n0 + 1
                and is_dm15_call(trace[-1], self, 8, bits(data[1], 4, 4), DM15_PROCEED, ResponseState.WAIT_FOR_KEY, data[0], sa))))
    # key frame: the key the client returned is kept for the check
    ensures("C18.dm14.key", implies(dm14 and not guard and st0 == ResponseState.WAIT_FOR_KEY,
            self.state == ResponseState.SEND_PROCEED and self.key == le2(data[6], data[7]) and len(trace) == n0
            and unchanged(self.sa)
            and not is_none(self.address) and len(self.address) == 4 and forall(lambda i: self.address[i] == data[2 + i], 0, 4)
            and self.object_count == data[0]))
    # closing DM14 (operation completed): the server is idle again and accepts any requester
    ensures("C17.dm14.close", implies(dm14 and not guard and st0 == ResponseState.WAIT_OPERATION_COMPLETE,
            self.state == ResponseState.IDLE and is_none(self.sa) and len(trace) == n0 + 1
            and trace[-1].fn == fn("ControllerApplication.unsubscribe") and trace[-1].o0 == self._ca
            and trace[-1].f1 == method(self, "parse_dm14")))


@unit("j1939.Dm14Server:DM14Server._send_dm16", props=["C17"])
def _(self: "DM14Server"):
    requires(octets(self.data), not is_none(self.sa), 0 <= self.sa <= 255, 0 <= self.length <= 8)
    opaque("ControllerApplication.send_pgn", "ControllerApplication.subscribe")
    let("n0", len(trace))
    let("n", len(self.data))
    invariant(1, _i1 <= n, len(data) == 1 + _i1, data[0] == ite(n > 7, 0xFF, n),
              forall(lambda j: data[1 + j] == self.data[j], 0, _i1))
    # count octet (0xFF above 7 octets), exactly the octets the application supplied, in order, 0xFF fill up to the frame length
    ensures("C17.dm16.server", is_ca_send(trace[-1], self._ca, 0xD7, self.sa, 7),
            len(trace[-1].l5) == ite(self.length - n - 1 > 0, self.length, 1 + n), trace[-1].l5[0] == ite(n > 7, 0xFF, n),
            forall(lambda j: trace[-1].l5[1 + j] == self.data[j], 0, n),
            forall(lambda j: trace[-1].l5[j] == 0xFF, 1 + n, len(trace[-1].l5)),
            # above seven octets the DM16 travels over the transport protocol: its acknowledge is awaited (one more subscription)
            len(trace) == n0 + ite(n > 7, 2, 1))


@unit("j1939.Dm14Server:DM14Server.verify_key", props=["C18"])
def _(self: "DM14Server", seed: "int", key: "int"):
    requires(not is_none(self._key_from_seed))
    returns("bool")
    # the key is accepted exactly when it is what the configured algorithm derives from the seed that was sent
    ensures("C18.verify_key", result == (self._key_from_seed(seed) == key))


@unit("j1939.Dm14Server:DM14Server.generate_seed", props=["C18"])
def _(self: "DM14Server"):
    returns("int")
    # a seed is 16 bits and never one of the two reserved values (0xFFFF = no key required, 0 = key exchange complete)
    ensures("C18.seed.range", 0 < result, result < 0xFFFF)


@unit("j1939.Dm14Server:DM14Server._send_dm15", props=["C18", "C17", "C19"])
def _(self: "DM14Server", length: "int", direct: "int", status: "int", state: "enum('ResponseState')", object_count: "int", sa: "int",
      pgn: "int", error: "opt(int)", edcp: "opt(int)"):
    requires(length == 8, 0 <= direct <= 15, 0 <= status <= 7, 0 <= object_count <= 255, 0 <= sa <= 255, pgn == PGN_DM15,
             implies(state == ResponseState.SEND_ERROR, not is_none(error) and not is_none(edcp) and 0 <= error < 2**24 and 0 <= edcp <= 255))
    cases(length, [8])
    opaque("ControllerApplication.send_pgn")
    # the configured seed generator yields a 16-bit seed (the built-in one: C18.seed.range)
    callout_assume("the seed generator returns a 16-bit value", 0 <= ret and ret <= 0xFFFF, on=self._seed_generator)
    let("n0", len(trace))
    raises("ValueError", when=state != ResponseState.WAIT_FOR_KEY and state != ResponseState.SEND_PROCEED
           and state != ResponseState.SEND_OPERATION_COMPLETE and state != ResponseState.SEND_ERROR, label="C18.dm15.invalid_state")
    # always exactly one DM15 (PF 0xD8), priority 6, to the address given
    ensures("C19.dm15.addressed", is_ca_send(trace[-1], self._ca, 0xD8, sa, 6), len(trace[-1].l5) == 8)
    # ---- error: status 'operation failed', 24-bit error indicator (little endian), EDCP extension, no seed
    ensures("C18.dm15.error", implies(state == ResponseState.SEND_ERROR,
            len(trace) == n0 + 1
            and trace[-1].l5 == [0, dm14_octet1(direct, DM15_OPERATION_FAILED), le_octet(error, 0), le_octet(error, 1), le_octet(error, 2), edcp, 0xFF, 0xFF]
            and le3(trace[-1].l5[2], trace[-1].l5[3], trace[-1].l5[4]) == error))
    # ---- seed: number allowed 0, the seed just generated in the last two octets (and remembered for the key check)
    ensures("C18.dm15.seed", implies(state == ResponseState.WAIT_FOR_KEY,
            len(trace) == n0 + 2 and trace[n0].fn == old(self._seed_generator)
            and not is_none(self.seed) and self.seed == trace[n0].ret
            and trace[-1].l5 == [0, dm14_octet1(direct, status), 0xFF, 0xFF, 0xFF, 0xFF, le_octet(self.seed, 0), le_octet(self.seed, 1)]
            and le2(trace[-1].l5[6], trace[-1].l5[7]) == self.seed))
    # ---- proceed: number of objects allowed, seed field 0xFFFF (no key required any more)
    ensures("C17.dm15.proceed", implies(state == ResponseState.SEND_PROCEED,
            len(trace) == n0 + 1
            and trace[-1].l5 == [object_count, dm14_octet1(direct, status), 0xFF, 0xFF, 0xFF, 0xFF, 0xFF, 0xFF]))
    # ---- operation complete: status field 4; the server now waits for the client's closing DM14
    ensures("C17.dm15.complete", implies(state == ResponseState.SEND_OPERATION_COMPLETE,
            len(trace) == n0 + 1
            and trace[-1].l5 == [0, dm14_octet1(direct, DM15_OPERATION_COMPLETE), 0xFF, 0xFF, 0xFF, 0xFF, 0xFF, 0xFF]
            and self.state == ResponseState.WAIT_OPERATION_COMPLETE))


@unit("j1939.Dm14Server:DM14Server._parse_dm16", props=["C17"])
def _(self: "DM14Server", priority: "int", pgn: "int", sa: "int", timestamp: "real", data: "octets"):
    requires(octets(data))
    opaque("ControllerApplication.subscribe", "ControllerApplication.unsubscribe", "DM14Server._send_dm15")
    let("n0", len(trace))
    let("mine", pgn == PGN_DM16 and not is_none(self.sa) and sa == self.sa)
    let("n", mn(data[0], len(data) - 1))
    let("q0", old(len(self.data_queue)))
    raises("IndexError", when=mine and len(data) == 0, label="C17.dm16.server.empty")
    ensures("C17.dm16.server.foreign", implies(not mine, len(trace) == n0 and len(self.data_queue) == q0 and unchanged(self.state)))
    # a write (the server waits for the data): the application gets exactly the octets behind the count octet, once
    ensures("C17.dm16.server.take", implies(mine and old(self.state) == ResponseState.WAIT_FOR_DM16,
            len(self.data_queue) == q0 + 1 and len(self.data_queue[-1]) == ite(n < 0, 0, n)
            and forall(lambda j: self.data_queue[-1][j] == data[1 + j], 0, n)))
    # in any other state the call is the transport acknowledge of the server's own DM16 (a read): nothing is queued
    ensures("C17.dm16.server.ack_is_not_data", implies(mine and old(self.state) != ResponseState.WAIT_FOR_DM16, len(self.data_queue) == q0))
    ensures("C17.dm16.server.complete", implies(mine,
            self.state == ResponseState.SEND_OPERATION_COMPLETE
            and len(trace) == n0 + 3
            and trace[n0].fn == fn("ControllerApplication.unsubscribe") and trace[n0].f1 == method(self, "_parse_dm16")
            and trace[n0 + 1].fn == fn("ControllerApplication.subscribe") and trace[n0 + 1].f1 == method(self, "parse_dm14")
            and trace[n0 + 2].fn == fn("DM14Server._send_dm15") and trace[n0 + 2].o0 == self
            and trace[n0 + 2].i4 == ResponseState.SEND_OPERATION_COMPLETE.value and trace[n0 + 2].i6 == sa))


@unit("j1939.Dm14Server:DM14Server.reset_query", props=["C18", "C19"])
def _(self: "DM14Server"):
    opaque("ControllerApplication.unsubscribe")
    # back to the initial state: idle, no requester, no pointer, not busy, no pending seed / key / data / error
    ensures("C18.reset", self.state == ResponseState.IDLE, is_none(self.sa), is_none(self.seed), is_none(self.key), self._busy == False,
            is_none(self.address), self.length == 8, self.proceed == False, len(self.data) == 0, self.error == 0, self.edcp == 7,
            self.status == DM15_PROCEED, self.direct == 0)


# ------------------------------------------------------------------ facade (MemoryAccess)

@unit("j1939.memory_access:MemoryAccess.read", props=["C18", "C17", "C19"])
def _(self: "MemoryAccess", dest_address: "int", direct: "int", address: "int", object_count: "int", object_byte_size: "int",
      signed: "bool", return_raw_bytes: "bool", max_timeout: "real"):
    opaque("Dm14Query.read")
    opaque_raises("Dm14Query.read", "RuntimeError", "AssertionError", "IndexError")
    # while the query runs the facade is in WAIT_QUERY: requests arriving meanwhile are answered busy (C19.facade.busy_while_query)
    callout_check("C19.facade.read.wait_query", implies(ev.fn == fn("Dm14Query.read"), self.state == DMState.WAIT_QUERY))
    returns("any")
    let("n0", len(trace))
    let("idle", old(self.state) == DMState.IDLE)
    raises("RuntimeWarning", when=not idle, post=len(trace) == n0 and unchanged(self.state), label="C18.facade.read.busy")
    # whatever the query raises (no response, error response, wrong key) travels to the caller - and the facade is idle again
    raises(["RuntimeError", "AssertionError", "IndexError"], post=self.state == DMState.IDLE and len(trace) == n0 + 1,
           label="C18.facade.read.recover", exact=False)
    # the query is handed exactly the caller's arguments, once; afterwards the facade is idle again
    ensures("C17.facade.read", len(trace) == n0 + 1, trace[-1].fn == fn("Dm14Query.read"), trace[-1].o0 == self.query,
            trace[-1].i1 == dest_address, trace[-1].i2 == direct, trace[-1].i3 == address, trace[-1].i4 == object_count,
            trace[-1].i5 == object_byte_size, trace[-1].b6 == signed, trace[-1].b7 == return_raw_bytes, trace[-1].r8 == max_timeout,
            self.state == DMState.IDLE)


@unit("j1939.memory_access:MemoryAccess.write", props=["C18", "C17", "C19"])
def _(self: "MemoryAccess", dest_address: "int", direct: "int", address: "int", values: "list(int)", object_byte_size: "int",
      max_timeout: "real"):
    opaque("Dm14Query.write")
    opaque_raises("Dm14Query.write", "RuntimeError", "AssertionError", "OverflowError", "IndexError")
    callout_check("C19.facade.write.wait_query", implies(ev.fn == fn("Dm14Query.write"), self.state == DMState.WAIT_QUERY))
    let("n0", len(trace))
    let("idle", old(self.state) == DMState.IDLE)
    raises(["RuntimeError", "AssertionError", "OverflowError", "IndexError"], post=self.state == DMState.IDLE and len(trace) == n0 + 1,
           label="C18.facade.write.recover", exact=False)
    ensures("C17.facade.write", implies(idle, len(trace) == n0 + 1 and trace[-1].fn == fn("Dm14Query.write") and trace[-1].o0 == self.query
            and trace[-1].i1 == dest_address and trace[-1].i2 == direct and trace[-1].i3 == address and same_list(trace[-1].l4, values)
            and trace[-1].i5 == object_byte_size and trace[-1].r6 == max_timeout and self.state == DMState.IDLE))
    ensures("C18.facade.write.busy", implies(not idle, len(trace) == n0 and unchanged(self.state)))


def key_ok(ma):
    # the key the client returned is what the configured algorithm derives from the seed that was sent to it
    return (not is_none(ma.server._key_from_seed) and not is_none(ma.server.seed) and not is_none(ma.server.key)
            and ma.server._key_from_seed(ma.server.seed) == ma.server.key)


@unit("j1939.memory_access:MemoryAccess._listen_for_dm14", props=["C18", "C19", "C17"])
def _(self: "MemoryAccess", priority: "int", pgn: "int", sa: "int", timestamp: "real", data: "octets"):
    requires(octets(data), len(data) == 8, 0 <= sa <= 255, self.server.length == 8, 0 <= self.server.error < 2**24,
             # set_seed_key_algorithm switches the key exchange on for facade and server together
             self.seed_security == (not is_none(self.server._key_from_seed)),
             implies(not is_none(self._proceed_function), not is_none(self._notify_query_received)),
             self._proceed_function != self._notify_query_received,
             # the pointer kept by the server is the 4-octet pointer field of an 8-octet DM14
             implies(not is_none(self.server.address), len(self.server.address) == 4 and octets(self.server.address)),
             # coupling of the two state machines: the facade waits for the key frame exactly while the server does
             implies(self.state == DMState.REQUEST_STARTED,
                     self.server.state == ResponseState.WAIT_FOR_KEY and not is_none(self.server.seed) and not is_none(self.server.address)))
    bycontract("DM14Server.parse_dm14", "DM14Server.verify_key")
    opaque("ControllerApplication.unsubscribe", "ControllerApplication.subscribe")
    let("n0", len(trace))
    let("st0", old(self.state))
    # ---- C18: with a seed/key algorithm the serving application is consulted (proceed callback) and told about the request
    # (notify callback) only while the key returned by the client matches the seed it was sent
    callout_check("C18.key_before_app",
                  implies(ev.fn == self._proceed_function or ev.fn == self._notify_query_received,
                          implies(self.seed_security, key_ok(self))))
    # other parameter groups are none of the facade's business
    ensures("C19.facade.foreign_pgn", implies(pgn != PGN_DM14, len(trace) == n0 and unchanged(self.state)))
    # ---- C19: while the facade itself runs a query as client, every incoming request is answered 'busy' and never reaches
    # the application
    ensures("C19.facade.busy_while_query", implies(pgn == PGN_DM14 and st0 == DMState.WAIT_QUERY,
            unchanged(self.state) and self.server._busy == False
            and forall(lambda j: trace[j].fn != self._proceed_function and trace[j].fn != self._notify_query_received, n0, len(trace))
            and len(trace) == n0 + 1
            and is_dm15_call(trace[-1], self.server, 8, bits(data[1], 4, 4), DM15_OPERATION_FAILED, ResponseState.SEND_ERROR, data[0], sa)))
    # a request while the server is still busy with a transaction (e.g. waiting for the closing DM14) is not taken as a new one:
    # nothing reaches the application, nothing changes
    ensures("C19.facade.server_running", implies(pgn == PGN_DM14 and st0 == DMState.IDLE and old(self.server.state) != ResponseState.IDLE,
            len(trace) == n0 and unchanged(self.state, self.server.state, self.server.sa)))
    # a request while the application still owes the answer to the previous one (WAIT_RESPONSE) is not looked at
    ensures("C19.facade.wait_response", implies(pgn == PGN_DM14 and st0 == DMState.WAIT_RESPONSE, len(trace) == n0 and unchanged(self.state)))


# ------------------------------------------------------------------ client: DM15 handling (errors surfaced)

@unit("j1939.Dm14Query:Dm14Query._parse_dm15", variant="error", props=["C18"])
def _(self: "Dm14Query", priority: "int", pgn: "int", sa: "int", timestamp: "real", data: "octets"):
    requires(octets(data), len(data) == 8, 0 <= sa <= 255, no_alias(self.data_queue, self.exception_queue),
             # this variant: foreign frames and error / busy responses
             pgn != PGN_DM15 or sa != self._dest_address or bits(data[1], 1, 3) == DM15_BUSY or bits(data[1], 1, 3) == DM15_OPERATION_FAILED)
    let("n0", len(trace))
    let("mine", pgn == PGN_DM15 and sa == self._dest_address)
    let("q0", old(len(self.data_queue)))
    let("e0", old(len(self.exception_queue)))
    ensures("C18.dm15.foreign", implies(not mine, len(trace) == n0 and len(self.data_queue) == q0 and len(self.exception_queue) == e0
                                        and unchanged(self.state)))
    # an error / busy response ends the blocking wait of read()/write() (None in the data queue) and, when it carries an error
    # indicator (EDCP extension 6 or 7), queues exactly one exception for the caller
    ensures("C18.dm15.error_surfaced", implies(mine,
            len(self.data_queue) == q0 + 1 and is_none(self.data_queue[-1])
            and len(self.exception_queue) == e0 + ite(data[5] == 6 or data[5] == 7, 1, 0)
            and len(trace) == n0))
