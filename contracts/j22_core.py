# J1939-22 (CAN FD) link layer: construction (establishes Inv22), session keys, session-number pools.
# C10 (capacity: a number is handed out only while free, marked taken, returned only by the pass), C07 (invariant), C02.

@unit("j1939.j1939_22:J1939_22.__init__", props=["C02", "C07", "C10", "C09", "C11"])
def _(self: "J1939_22", send_message: "func", job_thread_wakeup: "func", notify_subscribers: "func", max_cmdt_packets: "int",
      minimum_tp_rts_cts_dt_interval: "opt(real)", minimum_tp_bam_dt_interval: "opt(real)", ecu_is_message_acceptable: "funcT(bool, True)"):
    requires(1 <= max_cmdt_packets <= 255,
             implies(not is_none(minimum_tp_rts_cts_dt_interval), minimum_tp_rts_cts_dt_interval > 0),
             implies(not is_none(minimum_tp_bam_dt_interval), minimum_tp_bam_dt_interval > 0),
             send_message != job_thread_wakeup, send_message != notify_subscribers, job_thread_wakeup != notify_subscribers)
    # the nine loops that fill the DLC look-up table are unrolled (constant trip counts)
    ensures("C07.inv22.init", inv22(self))
    # full capacity at start: 8 destination-specific and 4 broadcast session numbers free
    ensures("C10.fd.init", forall(lambda i: pool_rts(self)[i] == True, 0, 8), forall(lambda i: pool_bam(self)[i] == True, 0, 4))
    ensures("C09.pace.fd.default", self._minimum_tp_bam_dt_interval == ite(is_none(minimum_tp_bam_dt_interval), TB_FD_DEFAULT, minimum_tp_bam_dt_interval),
            self._max_cmdt_packets == max_cmdt_packets, self.__send_message == send_message,
            self.__job_thread_wakeup == job_thread_wakeup, self.__notify_subscribers == notify_subscribers,
            len(self._cas) == 0, len(trace) == old(len(trace)))


@unit("j1939.j1939_22:J1939_22._buffer_hash", replay="native", props=["C02", "C10", "C06"])
def _(self: "J1939_22", session_num: "int", src_address: "int", dest_address: "int"):
    requires(-2**40 <= session_num < 2**40, -2**40 <= src_address < 2**40, -2**40 <= dest_address < 2**40)
    returns("int")
    ensures("C10.fd.hash", result == hash22(session_num, src_address, dest_address), 0 <= result < 2**20)
    ensures("C10.fd.hash_injective", implies(0 <= session_num < 16 and 0 <= src_address < 256 and 0 <= dest_address < 256,
                                              result // 65536 == session_num and (result // 256) % 256 == src_address
                                              and result % 256 == dest_address))


@unit("j1939.j1939_22:J1939_22._buffer_hash_mpg", replay="native", props=["C11"])
def _(self: "J1939_22", frame_format: "int", msg_counter: "int", src_address: "int", dest_address: "int"):
    requires(-2**40 <= frame_format < 2**40, 0 <= msg_counter, -2**40 <= src_address < 2**40, -2**40 <= dest_address < 2**40)
    returns("int")
    ensures("C11.sep.hash", result == hash_mpg(frame_format, msg_counter, src_address, dest_address), 0 <= result < 2**32)
    # groups for different destinations, sources or frame formats never share a collection buffer
    ensures("C11.sep.injective", implies(0 <= frame_format < 256 and 0 <= msg_counter < 256 and 0 <= src_address < 256 and 0 <= dest_address < 256,
                                          result // 2**24 == frame_format and (result // 65536) % 256 == msg_counter
                                          and (result // 256) % 256 == src_address and result % 256 == dest_address))


@unit("j1939.j1939_22:J1939_22._buffer_unhash_mpg", replay="native", props=["C11"])
def _(self: "J1939_22", hash: "int"):
    requires(0 <= hash < 2**32)
    returns("tuple(int, int, int, int)")
    ensures("C11.sep.unhash", result[0] == hash // 2**24, result[1] == (hash // 65536) % 256, result[2] == (hash // 256) % 256,
            result[3] == hash % 256,
            hash == hash_mpg(result[0], result[1], result[2], result[3]))


# ------------------------------------------------------------------ session-number pools
# first_free(p, n): the lowest index below n whose flag is True, n if none

def none_free(p, n):
    return forall(lambda i: p[i] != True, 0, n)


def first_free4(p):
    return ite(p[0] == True, 0, ite(p[1] == True, 1, ite(p[2] == True, 2, ite(p[3] == True, 3, 4))))


def first_free8(p):
    return ite(p[0] == True, 0, ite(p[1] == True, 1, ite(p[2] == True, 2, ite(p[3] == True, 3,
           ite(p[4] == True, 4, ite(p[5] == True, 5, ite(p[6] == True, 6, ite(p[7] == True, 7, 8))))))))


@unit("j1939.j1939_22:J1939_22.__get_rts_cts_session", props=["C10", "C02"])
def _(self: "J1939_22"):
    requires(len(pool_rts(self)) == 8)
    returns("opt(int)")
    modifies(elems(pool_rts(self)))
    # refused (None) only when all eight numbers are taken, and then nothing changes
    ensures("C10.fd.take.rts", ite(is_none(result),
                                   old(none_free(pool_rts(self), 8)) and same_list(pool_rts(self), old(pool_rts(self))),
                                   0 <= result and result < 8 and old(pool_rts(self)[result]) == True
                                   and pool_rts(self)[result] == False
                                   and forall(lambda i: implies(i != result, pool_rts(self)[i] == old(pool_rts(self)[i])), 0, 8)))
    ensures("C10.fd.take.rts.len", len(pool_rts(self)) == 8)
    # the lowest free number is handed out
    ensures("C10.fd.take.rts.lowest", ite(is_none(result), old(first_free8(pool_rts(self))) == 8, result == old(first_free8(pool_rts(self)))))


@unit("j1939.j1939_22:J1939_22.__get_bam_session", props=["C10", "C02"])
def _(self: "J1939_22"):
    requires(len(pool_bam(self)) == 4)
    returns("opt(int)")
    modifies(elems(pool_bam(self)))
    ensures("C10.fd.take.bam", ite(is_none(result),
                                   old(none_free(pool_bam(self), 4)) and same_list(pool_bam(self), old(pool_bam(self))),
                                   0 <= result and result < 4 and old(pool_bam(self)[result]) == True
                                   and pool_bam(self)[result] == False
                                   and forall(lambda i: implies(i != result, pool_bam(self)[i] == old(pool_bam(self)[i])), 0, 4)))
    ensures("C10.fd.take.bam.len", len(pool_bam(self)) == 4)
    ensures("C10.fd.take.bam.lowest", ite(is_none(result), old(first_free4(pool_bam(self))) == 4, result == old(first_free4(pool_bam(self)))))


@unit("j1939.j1939_22:J1939_22.__put_rts_cts_session", props=["C10"])
def _(self: "J1939_22", session: "int"):
    requires(len(pool_rts(self)) == 8, 0 <= session < 8)
    modifies(elems(pool_rts(self)))
    ensures("C10.fd.release.rts", pool_rts(self)[session] == True, len(pool_rts(self)) == 8,
            forall(lambda i: implies(i != session, pool_rts(self)[i] == old(pool_rts(self)[i])), 0, 8))


@unit("j1939.j1939_22:J1939_22.__put_bam_session", props=["C10"])
def _(self: "J1939_22", session: "int"):
    requires(len(pool_bam(self)) == 4, 0 <= session < 4)
    modifies(elems(pool_bam(self)))
    ensures("C10.fd.release.bam", pool_bam(self)[session] == True, len(pool_bam(self)) == 4,
            forall(lambda i: implies(i != session, pool_bam(self)[i] == old(pool_bam(self)[i])), 0, 4))
