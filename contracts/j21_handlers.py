# J1939-21 receive handlers: TP.CM (RTS / CTS / EndOfMsgACK / BAM / Abort) and TP.DT.
# Properties: C01 (sessions, reassembly, deliver once), C03 (field extraction, replies), C06 (deadlines),
# C07 (invariant preserved on every frame, also on exceptional exits), C09 (grants, hold), C10 (frames).

def frame21_ok(mid, dest_address, data):
    return (octets(data) and len(data) <= 8 and 0 <= dest_address and dest_address <= 255
            and 0 <= mid.source_address and mid.source_address <= 255 and 0 <= mid.priority and mid.priority <= 7
            and 0 <= mid.parameter_group_number and mid.parameter_group_number < 2 ** 18)


def armed(deadline, t):
    # deadline == time.time() + t for a clock reading taken during the call
    return old(clock) + t <= deadline and deadline <= clock + t


def min2(a, b):
    return ite(a < b, a, b)


@unit("j1939.j1939_21:J1939_21._process_tp_cm", props=["C01", "C03", "C06", "C07", "C09", "C10"])
def _(self: "J1939_21", mid: "MessageId", dest_address: "int", data: "octets", timestamp: "real"):
    requires(inv21(self), frame21_ok(mid, dest_address, data))
    let("n0", len(trace))
    let("send", self.__send_message)
    let("wake", self.__job_thread_wakeup)
    let("notify", self.__notify_subscribers)
    let("src", mid.source_address)
    let("ctl", data[0])
    let("pgn", le3(data[5], data[6], data[7]))
    let("rkey", hash21(src, dest_address))
    let("skey", hash21(dest_address, src))
    let("r_busy", has_key(self._rcv_buffer, rkey))
    let("s_has", has_key(self._snd_buffer, skey))
    let("full", len(data) >= 8)
    # malformed frames may raise to the caller, but leave the stack usable
    raises("IndexError", when=not full, post=inv21(self) and len(trace) == n0, label="C07.cm.short_frame")
    raises("RuntimeError", when=full and ctl != CM_RTS and ctl != CM_CTS and ctl != CM_EOM_ACK and ctl != CM_BAM and ctl != CM_ABORT,
           post=inv21(self) and len(trace) == n0, label="C07.cm.unknown_control")
    ensures("C07.inv21.cm", inv21(self))

    # ---------------- RTS
    let("rts", full and ctl == CM_RTS)
    let("grant", min2(self._max_cmdt_packets, min2(data[4], data[3])))
    ensures("C01.cm.rts.busy", implies(rts and r_busy,
            len(trace) == n0 + 1 and is_sent(trace[-1], send, tp_cm_id(7, src, dest_address), cm_abort(ABORT_BUSY, pgn))
            and table_same_except(self._rcv_buffer) and table_same_except(self._snd_buffer)))
    ensures("C01.cm.rts.open", implies(rts and not r_busy,
            has_key(self._rcv_buffer, rkey) and table_same_except(self._rcv_buffer, rkey) and table_same_except(self._snd_buffer)
            and self._rcv_buffer[rkey]['pgn'] == pgn
            and self._rcv_buffer[rkey]['message_size'] == le2(data[1], data[2])
            and self._rcv_buffer[rkey]['num_packages'] == data[3]
            and self._rcv_buffer[rkey]['num_packages_max_rec'] == grant
            and self._rcv_buffer[rkey]['next_packet'] == grant
            and len(self._rcv_buffer[rkey]['data']) == 0
            and self._rcv_buffer[rkey]['src_address'] == src and self._rcv_buffer[rkey]['dest_address'] == dest_address
            and armed(self._rcv_buffer[rkey]['deadline'], T2)))
    # the reply is a CTS for packet 1 that never grants more than the RTS allows, than the own maximum, or than there are
    ensures("C09.grant.rts", implies(rts and not r_busy,
            len(trace) == n0 + 2
            and is_sent(trace[n0], send, tp_cm_id(7, src, dest_address), cm_cts(grant, 1, pgn))
            and grant <= data[4] and grant <= self._max_cmdt_packets and grant <= data[3]
            and trace[n0 + 1].fn == wake))

    # ---------------- CTS (we are the originator of the session (dest_address -> src))
    let("cts", full and ctl == CM_CTS)
    ensures("C01.cm.cts.unknown", implies(cts and not s_has,
            len(trace) == n0 + 1 and is_sent(trace[-1], send, tp_cm_id(7, src, dest_address), cm_abort(ABORT_RESOURCES, pgn))
            and table_same_except(self._rcv_buffer) and table_same_except(self._snd_buffer)))
    # hold: a CTS for zero packets only extends the wait
    ensures("C09.hold", implies(cts and s_has and data[1] == 0,
            len(trace) == n0 + 1 and trace[-1].fn == wake
            and armed(self._snd_buffer[skey]['deadline'], TH)
            and unchanged(self._snd_buffer[skey]['state'], self._snd_buffer[skey]['next_packet_to_send'])
            and table_same_except(self._rcv_buffer) and table_same_except(self._snd_buffer)))
    # a CTS is only acted upon while the session waits for one; otherwise nothing changes (no frame either)
    let("s_wait", s_has and old(self._snd_buffer[skey]['state']) == S21_WAITING_CTS)
    ensures("C07.cm.cts.unexpected", implies(cts and s_has and data[1] != 0 and not s_wait,
            len(trace) == n0
            and unchanged(self._snd_buffer[skey]['state'], self._snd_buffer[skey]['next_packet_to_send'],
                          self._snd_buffer[skey]['deadline'])))
    # conformant grant (1 <= n <= packets remaining, next packet = the one we would send next):
    # exactly n packets are released, the burst starts at once
    let("npts", old(self._snd_buffer[skey]['next_packet_to_send']))
    let("nall", old(self._snd_buffer[skey]['num_packages']))
    ensures("C09.cts.grant", implies(cts and s_wait and 1 <= data[1] and data[1] <= nall - npts and data[2] == npts + 1,
            self._snd_buffer[skey]['state'] == S21_SENDING_IN_CTS
            and self._snd_buffer[skey]['next_wait_on_cts'] == npts + data[1] - 1
            and unchanged(self._snd_buffer[skey]['next_packet_to_send'])
            and old(clock) <= self._snd_buffer[skey]['deadline'] and self._snd_buffer[skey]['deadline'] <= clock
            and len(trace) == n0 + 1 and trace[-1].fn == wake))
    ensures("C01.cm.cts.frame", implies(cts, table_same_except(self._rcv_buffer) and table_same_except(self._snd_buffer)))

    # ---------------- EndOfMsgACK: reported to the originator's listeners, session finished
    let("eom", full and ctl == CM_EOM_ACK)
    ensures("C01.cm.eom.unknown", implies(eom and not s_has,
            len(trace) == n0 + 1 and is_sent(trace[-1], send, tp_cm_id(7, src, dest_address), cm_abort(ABORT_RESOURCES, pgn))))
    ensures("C01.cm.eom.finish", implies(eom and s_has,
            len(trace) == n0 + 2
            and trace[n0].fn == notify and trace[n0].n == 6 and trace[n0].i0 == mid.priority and trace[n0].i1 == pgn
            and trace[n0].i2 == src and trace[n0].i3 == dest_address and trace[n0].r4 == timestamp and same_list(trace[n0].l5, data)
            and trace[n0 + 1].fn == wake
            and self._snd_buffer[skey]['state'] == S21_FINISHED
            and old(clock) <= self._snd_buffer[skey]['deadline'] and self._snd_buffer[skey]['deadline'] <= clock))
    ensures("C01.cm.eom.frame", implies(eom, table_same_except(self._rcv_buffer) and table_same_except(self._snd_buffer)))

    # ---------------- BAM: (re)opens a broadcast receive session, never answers
    let("bam", full and ctl == CM_BAM)
    ensures("C01.cm.bam.open", implies(bam,
            has_key(self._rcv_buffer, rkey) and table_same_except(self._rcv_buffer, rkey) and table_same_except(self._snd_buffer)
            and self._rcv_buffer[rkey]['pgn'] == pgn
            and self._rcv_buffer[rkey]['message_size'] == le2(data[1], data[2])
            and self._rcv_buffer[rkey]['num_packages'] == data[3]
            and len(self._rcv_buffer[rkey]['data']) == 0
            and self._rcv_buffer[rkey]['src_address'] == src and self._rcv_buffer[rkey]['dest_address'] == dest_address
            and armed(self._rcv_buffer[rkey]['deadline'], T1)
            and forall(lambda j: trace[j].fn == wake, n0, len(trace)) and len(trace) >= n0 + 1))

    # ---------------- Abort from the peer: a session still waiting for its first/next CTS is finished at once
    let("abort", full and ctl == CM_ABORT)
    ensures("C06.cm.abort", implies(abort,
            table_same_except(self._rcv_buffer) and table_same_except(self._snd_buffer)
            and forall(lambda j: trace[j].fn == wake, n0, len(trace))
            and implies(s_wait, self._snd_buffer[skey]['state'] == S21_FINISHED
                        and old(clock) <= self._snd_buffer[skey]['deadline'] and self._snd_buffer[skey]['deadline'] <= clock
                        # wake-up discipline: a deadline that was moved forward must wake the background thread
                        and len(trace) == n0 + 1)
            and implies(s_has and not s_wait, len(trace) == n0 and unchanged(self._snd_buffer[skey]['state'], self._snd_buffer[skey]['deadline']))))


@unit("j1939.j1939_21:J1939_21._process_tp_dt", props=["C01", "C03", "C06", "C07", "C09"])
def _(self: "J1939_21", mid: "MessageId", dest_address: "int", data: "octets", timestamp: "real"):
    requires(inv21(self), frame21_ok(mid, dest_address, data))
    let("n0", len(trace))
    let("send", self.__send_message)
    let("wake", self.__job_thread_wakeup)
    let("notify", self.__notify_subscribers)
    let("src", mid.source_address)
    let("key", hash21(src, dest_address))
    let("has", has_key(self._rcv_buffer, key))
    let("nonempty", len(data) >= 1)
    let("size", old(self._rcv_buffer[key]['message_size']))
    let("npk", old(self._rcv_buffer[key]['num_packages']))
    let("buf0", old(self._rcv_buffer[key]['data']))
    let("got", len(buf0) + len(data) - 1)
    let("complete", nonempty and has and got >= size)
    let("spgn", old(self._rcv_buffer[key]['pgn']))
    let("nextp", old(self._rcv_buffer[key]['next_packet']))
    let("cm_mode", dest_address != 255)
    let("window", nonempty and has and not complete and cm_mode and data[0] >= nextp)
    let("maxrec", old(self._rcv_buffer[key]['num_packages_max_rec']))
    raises("IndexError", when=not nonempty, post=inv21(self) and len(trace) == n0, label="C07.dt.empty_frame")
    # a broadcast-shaped session with a specific destination (malformed BAM) has no window size
    raises("KeyError", when=window and not old(has_key(self._rcv_buffer[key], 'num_packages_max_rec')),
           post=inv21(self), label="C07.dt.malformed_session")
    ensures("C07.inv21.dt", inv21(self))
    ensures("C01.dt.frame", table_same_except(self._snd_buffer), table_same_except(self._rcv_buffer, key))
    # no session for this (source, destination): nothing at all happens
    ensures("C05.dt.foreign", implies(nonempty and not has, len(trace) == n0 and table_same_except(self._rcv_buffer)))
    # ---- reassembly: the buffer grows by exactly the seven (or fewer) data octets of the frame
    ensures("C01.reassemble", implies(nonempty and has and not complete,
            has_key(self._rcv_buffer, key) and len(self._rcv_buffer[key]['data']) == got
            and forall(lambda i: self._rcv_buffer[key]['data'][i] == buf0[i], 0, len(buf0))
            and forall(lambda i: self._rcv_buffer[key]['data'][len(buf0) + i] == data[1 + i], 0, len(data) - 1)))
    # ---- completion: delivered exactly once, cut to the announced size, session removed in the same call
    ensures("C01.deliver_once", implies(complete,
            not has_key(self._rcv_buffer, key)
            and len(trace) == n0 + ite(cm_mode, 3, 2)
            and trace[-2].fn == notify and trace[-2].n == 6 and trace[-2].i0 == mid.priority and trace[-2].i1 == spgn
            and trace[-2].i2 == src and trace[-2].i3 == dest_address and trace[-2].r4 == timestamp
            and len(trace[-2].l5) == size
            and forall(lambda i: trace[-2].l5[i] == ite(i < len(buf0), buf0[i], data[1 + i - len(buf0)]), 0, size)
            and trace[-1].fn == wake))
    ensures("C03.dt.eom_ack", implies(complete and cm_mode,
            is_sent(trace[n0], send, tp_cm_id(7, src, dest_address), cm_eom_ack(size, npk, spgn))))
    # ---- window exhausted: next CTS never grants more than the window or than remain
    ensures("C09.grant.dt", implies(window and old(has_key(self._rcv_buffer[key], 'num_packages_max_rec')),
            len(trace) == n0 + 2
            and is_sent(trace[n0], send, tp_cm_id(7, src, dest_address), cm_cts(min2(maxrec, npk - nextp), nextp + 1, spgn))
            and trace[n0 + 1].fn == wake
            and self._rcv_buffer[key]['next_packet'] == min2(nextp + maxrec, npk)
            and armed(self._rcv_buffer[key]['deadline'], T2)))
    ensures("C06.arm.dt", implies(nonempty and has and not complete and not window,
            len(trace) == n0 + 1 and trace[-1].fn == wake and armed(self._rcv_buffer[key]['deadline'], T1)
            and unchanged(self._rcv_buffer[key]['next_packet'])))
