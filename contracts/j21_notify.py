# J1939_21.notify: destination filter before any protocol handling (C05), dispatch of address claims to every CA
# (C04.bcast), of requests to the CAs that accept the destination (C14.dispatch), of TP frames to the handlers.
# Handlers are opaque here (verified as units of their own): each call is an event of the ghost trace.

def ca_accepts(ca, dest):
    # what ControllerApplication.message_acceptable returns (proved: C05.ca.accept)
    return ca._device_address_state == ST_NORMAL and (dest == ADDR_GLOBAL or ca._device_address == dest)


def is_subscriber_call(ev, notify, prio, pgn, sa, dest, timestamp, data):
    return (ev.fn == notify and ev.n == 6 and ev.i0 == prio and ev.i1 == pgn and ev.i2 == sa and ev.i3 == dest
            and ev.r4 == timestamp and same_list(ev.l5, data))


def mid_is(m, can_id):
    return (typeis(m, 'MessageId').priority == id_priority(can_id)
            and typeis(m, 'MessageId').parameter_group_number == id_pgn(can_id)
            and typeis(m, 'MessageId').source_address == id_sa(can_id))


@unit("j1939.j1939_21:J1939_21.notify", props=["C05", "C04", "C14", "C01", "C03", "C07"])
def _(self: "J1939_21", can_id: "int", data: "octets", timestamp: "real"):
    requires(0 <= can_id < 2**29)
    opaque("ControllerApplication._process_addressclaim", "ControllerApplication._process_request",
           "J1939_21._process_tp_cm", "J1939_21._process_tp_dt")
    modifies(trace)
    let("n0", len(trace))
    let("notify", self.__notify_subscribers)
    let("prio", id_priority(can_id))
    let("sa", id_sa(can_id))
    let("pf", bits(can_id, 16, 8))
    let("ps", bits(can_id, 8, 8))
    let("pgn17", bits(can_id, 8, 17))
    let("pgn_da0", bits(can_id, 16, 9) * 256)
    let("pdu2", pf >= 240)
    let("dest", ps)
    let("accepted", dest == ADDR_GLOBAL or self.__ecu_is_message_acceptable(dest)
        or exists(lambda j: ca_accepts(self._cas[j], dest), 0, len(self._cas)))
    # loop 1: search for a CA that accepts the destination
    invariant(1, _i1 <= len(self._cas), reject == True, len(trace) == n0,
              forall(lambda j: not ca_accepts(self._cas[j], dest), 0, _i1))
    # loop 2: address claims go to every CA of the stack
    invariant(2, _i2 <= len(self._cas), len(trace) == n0 + _i2,
              forall(lambda j: trace[n0 + j].fn == fn("ControllerApplication._process_addressclaim") and trace[n0 + j].n == 4
                     and trace[n0 + j].o0 == self._cas[j] and trace[n0 + j].o1 == mid and trace[n0 + j].r3 == timestamp
                     and same_list(trace[n0 + j].l2, data), 0, _i2))
    # loop 3: requests go to the CAs that accept the destination
    invariant(3, _i3 <= len(self._cas),
              len(trace) == n0 + count(lambda j: ca_accepts(self._cas[j], dest), 0, _i3),
              forall(lambda j: implies(ca_accepts(self._cas[j], dest),
                                       count(lambda k: ca_accepts(self._cas[k], dest), 0, j)
                                       < count(lambda k: ca_accepts(self._cas[k], dest), 0, _i3)), 0, _i3),
              forall(lambda j: implies(ca_accepts(self._cas[j], dest),
                                       trace[n0 + count(lambda k: ca_accepts(self._cas[k], dest), 0, j)].fn == fn("ControllerApplication._process_request")
                                       and trace[n0 + count(lambda k: ca_accepts(self._cas[k], dest), 0, j)].o0 == self._cas[j]
                                       and trace[n0 + count(lambda k: ca_accepts(self._cas[k], dest), 0, j)].o1 == mid
                                       and trace[n0 + count(lambda k: ca_accepts(self._cas[k], dest), 0, j)].i2 == dest
                                       and same_list(trace[n0 + count(lambda k: ca_accepts(self._cas[k], dest), 0, j)].l3, data)),
                     0, _i3))
    # ---- PDU2: broadcast to every listener
    ensures("C05.dll.accept.pdu2", implies(pdu2, len(trace) == n0 + 1
            and is_subscriber_call(trace[-1], notify, prio, pgn17, sa, ADDR_GLOBAL, timestamp, data)))
    # ---- PDU1 to an address nobody here owns: no delivery, no frame, no handler, no state
    ensures("C05.dll.reject.21", implies(not pdu2 and not accepted, len(trace) == n0))
    # ---- accepted PDU1
    ensures("C05.dll.accept.pdu1", implies(not pdu2 and accepted and pgn_da0 != 0xEE00 and pgn_da0 != 0xEA00
                                           and pgn_da0 != 0xEC00 and pgn_da0 != 0xEB00,
            len(trace) == n0 + 1 and is_subscriber_call(trace[-1], notify, prio, pgn_da0, sa, dest, timestamp, data)))
    ensures("C01.dll.tp_cm", implies(not pdu2 and accepted and pgn_da0 == 0xEC00,
            len(trace) == n0 + 1 and trace[-1].fn == fn("J1939_21._process_tp_cm") and trace[-1].o0 == self
            and mid_is(trace[-1].o1, can_id) and trace[-1].i2 == dest and same_list(trace[-1].l3, data) and trace[-1].r4 == timestamp))
    ensures("C01.dll.tp_dt", implies(not pdu2 and accepted and pgn_da0 == 0xEB00,
            len(trace) == n0 + 1 and trace[-1].fn == fn("J1939_21._process_tp_dt") and trace[-1].o0 == self
            and mid_is(trace[-1].o1, can_id) and trace[-1].i2 == dest and same_list(trace[-1].l3, data) and trace[-1].r4 == timestamp))
    # address claims are handed to every CA of the stack (claims are sent to the global address)
    ensures("C04.bcast", implies(not pdu2 and accepted and pgn_da0 == 0xEE00,
            len(trace) == n0 + len(self._cas)
            and forall(lambda j: trace[n0 + j].fn == fn("ControllerApplication._process_addressclaim")
                       and trace[n0 + j].o0 == self._cas[j] and mid_is(trace[n0 + j].o1, can_id)
                       and same_list(trace[n0 + j].l2, data) and trace[n0 + j].r3 == timestamp, 0, len(self._cas))))
    # requests: exactly the CAs that accept the destination, once each, in order
    ensures("C14.dispatch", implies(not pdu2 and accepted and pgn_da0 == 0xEA00,
            len(trace) == n0 + count(lambda j: ca_accepts(self._cas[j], dest), 0, len(self._cas))
            and forall(lambda j: implies(ca_accepts(self._cas[j], dest),
                                         trace[n0 + count(lambda k: ca_accepts(self._cas[k], dest), 0, j)].fn == fn("ControllerApplication._process_request")
                                         and trace[n0 + count(lambda k: ca_accepts(self._cas[k], dest), 0, j)].o0 == self._cas[j]
                                         and mid_is(trace[n0 + count(lambda k: ca_accepts(self._cas[k], dest), 0, j)].o1, can_id)
                                         and trace[n0 + count(lambda k: ca_accepts(self._cas[k], dest), 0, j)].i2 == dest
                                         and same_list(trace[n0 + count(lambda k: ca_accepts(self._cas[k], dest), 0, j)].l3, data)),
                       0, len(self._cas))))


@unit("j1939.j1939_21:J1939_21.__init__", props=["C07", "C10", "C09", "C01"])
def _(self: "J1939_21", send_message: "func", job_thread_wakeup: "func", notify_subscribers: "func", max_cmdt_packets: "int",
      minimum_tp_rts_cts_dt_interval: "opt(real)", minimum_tp_bam_dt_interval: "opt(real)", ecu_is_message_acceptable: "funcT(bool, True)"):
    requires(1 <= max_cmdt_packets <= 255,
             implies(not is_none(minimum_tp_rts_cts_dt_interval), minimum_tp_rts_cts_dt_interval > 0),
             implies(not is_none(minimum_tp_bam_dt_interval), minimum_tp_bam_dt_interval > 0))
    ensures("C07.inv21.init", inv21(self))
    ensures("C09.pace.bam.default", self._minimum_tp_bam_dt_interval == ite(is_none(minimum_tp_bam_dt_interval), TB_DEFAULT, minimum_tp_bam_dt_interval),
            self._max_cmdt_packets == max_cmdt_packets, self.__send_message == send_message,
            self.__job_thread_wakeup == job_thread_wakeup, self.__notify_subscribers == notify_subscribers,
            len(self._cas) == 0, len(trace) == old(len(trace)))
