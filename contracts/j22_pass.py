# J1939-22 background pass (async_job_thread): time-outs, aborts, multi-PG flush, bursts, BAM pacing, release of session numbers.
# C06 (expiry => abort + removal), C07 (pass total and progressing), C09 (burst <= grant, pacing), C02 (k-th FD.TP.DT = stored
# segment k), C10 (a session number is returned exactly when its send session is removed, to the pool it came from),
# C11 (a collection buffer is sent as one frame when its deadline has passed, then removed).
#
# Loops (source order): 1 receive sessions, 2 multi-PG buffers, 3 send sessions, 4 burst of a connection-mode session.

def rcv_done22(dll, k, now, wake):
    return (not has_key(dll._rcv_buffer, k)
            or (dll._rcv_buffer[k]['deadline'] > now and wake <= dll._rcv_buffer[k]['deadline']))


def snd_done22(dll, k, now, wake):
    return (not has_key(dll._snd_buffer, k)
            or (dll._snd_buffer[k]['deadline'] > now and wake <= dll._snd_buffer[k]['deadline']))


def mpg_done22(dll, k, now, wake):
    return (not has_key(dll._multi_pg_snd_buffer, k)
            or (dll._multi_pg_snd_buffer[k]['deadline'] > now and wake <= dll._multi_pg_snd_buffer[k]['deadline']))


def is_fd_dt(ev, send, dest, src, session, k, seg):
    # FD.TP.DT number k+1 of a session: identifier, session nibble, 24-bit segment number, then the octets of the stored segment
    return (ev.fn == send and ev.n == 3 and ev.i0 == fd_dt_id(dest, src) and ev.b1 == True and ev.b_fd_format == True
            and len(ev.l2) == fd_len(4 + mn(len(seg), 60))
            and ev.l2[0] == bits(session, 0, 4) * 16 and le3(ev.l2[1], ev.l2[2], ev.l2[3]) == k + 1
            and forall(lambda i: ev.l2[4 + i] == seg[i], 0, mn(len(seg), 60))
            and forall(lambda i: ev.l2[i] == 255, 4 + mn(len(seg), 60), len(ev.l2)))


def released_only(dll):
    # session numbers are only ever returned by the pass (False -> True), never taken
    return (forall(lambda i: pool_rts(dll)[i] == old(pool_rts(dll)[i]) or pool_rts(dll)[i] == True, 0, 8)
            and forall(lambda i: pool_bam(dll)[i] == old(pool_bam(dll)[i]) or pool_bam(dll)[i] == True, 0, 4))


@unit("j1939.j1939_22:J1939_22.async_job_thread", props=["C02", "C03", "C06", "C07", "C09", "C10", "C11"])
def _(self: "J1939_22", now: "real"):
    requires(inv22(self), now <= clock, now > 0)
    returns("real")
    bycontract("J1939_22.__send_tp_abort", "J1939_22.__send_tp_dt", "J1939_22.__send_tp_eom_status", "J1939_22.__send_multi_pg",
               "J1939_22._buffer_unhash_mpg", "J1939_22.__put_rts_cts_session", "J1939_22.__put_bam_session")
    let("n0", len(trace))
    let("send", self.__send_message)

    # ---------------------------------------------------------------- loop 1: receive sessions
    invariant(1, inv22(self), _i1 <= len(_l1), now < next_wakeup, next_wakeup <= now + 5,
              keys_forall(self._rcv_buffer, lambda k, r: at_entry(has_key(self._rcv_buffer, k))),
              forall(lambda j: rcv_done22(self, _l1[j], now, next_wakeup), 0, _i1),
              forall(lambda j: has_key(self._rcv_buffer, _l1[j])
                     and self._rcv_buffer[_l1[j]] == at_entry(self._rcv_buffer[_l1[j]]), _i1, len(_l1)),
              table_same_except(self._snd_buffer), table_same_except(self._multi_pg_snd_buffer), pools_same(self))
    body_ensures(1, "C06.fd.expire.rcv",
                 implies(at_head(self._rcv_buffer[bufid]['deadline']) > now,
                         len(trace) == at_head(len(trace)) and has_key(self._rcv_buffer, bufid)
                         and self._rcv_buffer[bufid]['deadline'] == at_head(self._rcv_buffer[bufid]['deadline'])),
                 # timed out: removed; a connection-mode session is aborted (reason 3) towards the originator
                 implies(at_head(self._rcv_buffer[bufid]['deadline']) <= now, not has_key(self._rcv_buffer, bufid)),
                 implies(at_head(self._rcv_buffer[bufid]['deadline']) <= now and at_head(self._rcv_buffer[bufid]['dest_address']) != 255,
                         len(trace) == at_head(len(trace)) + 1
                         and is_fd_sent(trace[-1], send,
                                        fd_cm_id(7, at_head(self._rcv_buffer[bufid]['src_address']), at_head(self._rcv_buffer[bufid]['dest_address'])),
                                        fd_cm(FD_ABORT, at_head(self._rcv_buffer[bufid]['session']), 0xFFFFFF, 0xFFFFFF, 0xFF, ABORT_TIMEOUT,
                                              at_head(self._rcv_buffer[bufid]['pgn'])))),
                 implies(at_head(self._rcv_buffer[bufid]['deadline']) <= now and at_head(self._rcv_buffer[bufid]['dest_address']) == 255,
                         len(trace) == at_head(len(trace))))

    # ---------------------------------------------------------------- loop 2: multi-PG collection buffers
    invariant(2, inv22(self), _i2 <= len(_l2), now < next_wakeup, next_wakeup <= now + 5,
              keys_forall(self._multi_pg_snd_buffer, lambda k, r: at_entry(has_key(self._multi_pg_snd_buffer, k))),
              forall(lambda j: mpg_done22(self, _l2[j], now, next_wakeup), 0, _i2),
              forall(lambda j: has_key(self._multi_pg_snd_buffer, _l2[j])
                     and self._multi_pg_snd_buffer[_l2[j]] == at_entry(self._multi_pg_snd_buffer[_l2[j]])
                     and self._multi_pg_snd_buffer[_l2[j]]['deadline'] == at_entry(self._multi_pg_snd_buffer[_l2[j]]['deadline']), _i2, len(_l2)),
              table_same_except(self._snd_buffer), pools_same(self),
              keys_forall(self._rcv_buffer, lambda k, r: r['deadline'] > now and next_wakeup <= r['deadline']))
    # C11.flush: a buffer is sent - as one frame holding its groups in order - exactly when its deadline has passed, then removed
    body_ensures(2, "C11.flush",
                 implies(at_head(self._multi_pg_snd_buffer[bufid]['deadline']) > now,
                         len(trace) == at_head(len(trace)) and has_key(self._multi_pg_snd_buffer, bufid)
                         and buf['deadline'] == at_head(buf['deadline']) and next_wakeup <= buf['deadline']),
                 implies(at_head(self._multi_pg_snd_buffer[bufid]['deadline']) <= now,
                         not has_key(self._multi_pg_snd_buffer, bufid) and len(trace) == at_head(len(trace)) + 1
                         and trace[-1].fn == send and trace[-1].n == 3 and trace[-1].b_fd_format == True
                         and len(trace[-1].l2) == fd_len(psum(buf['cpg'], len(buf['cpg']))) and len(trace[-1].l2) <= 64
                         and forall(lambda j: group_at(trace[-1].l2, buf['cpg'], j), 0, len(buf['cpg']))
                         and forall(lambda i: pad_at(trace[-1].l2, psum(buf['cpg'], len(buf['cpg'])), i), psum(buf['cpg'], len(buf['cpg'])), len(trace[-1].l2))
                         # the frame goes to the destination / from the source / in the format the buffer was keyed by
                         and ite(bufid // 2 ** 24 == FBFF,
                                 trace[-1].i0 == (bufid // 256) % 256 and trace[-1].b1 == False,
                                 trace[-1].i0 == fd_mpg_id(min_prio(buf['cpg'], len(buf['cpg'])), bufid % 256, (bufid // 256) % 256)
                                 and trace[-1].b1 == True)))

    # ---------------------------------------------------------------- loop 3: send sessions
    invariant(3, inv22(self), _i3 <= len(_l3), now < next_wakeup, next_wakeup <= now + 5,
              keys_forall(self._snd_buffer, lambda k, r: at_entry(has_key(self._snd_buffer, k))),
              forall(lambda j: snd_done22(self, _l3[j], now, next_wakeup), 0, _i3),
              forall(lambda j: has_key(self._snd_buffer, _l3[j])
                     and self._snd_buffer[_l3[j]] == at_entry(self._snd_buffer[_l3[j]])
                     and self._snd_buffer[_l3[j]]['deadline'] == at_entry(self._snd_buffer[_l3[j]]['deadline']), _i3, len(_l3)),
              released_only(self),
              keys_forall(self._rcv_buffer, lambda k, r: r['deadline'] > now and next_wakeup <= r['deadline']),
              keys_forall(self._multi_pg_snd_buffer, lambda k, r: r['deadline'] > now and next_wakeup <= r['deadline']))
    # ---------------------------------------------------------------- loop 4: burst of a connection-mode session
    invariant(4, inv22(self), has_key(self._snd_buffer, bufid), self._snd_buffer[bufid] == buf,
              buf['state'] == S22_SENDING_RTS_CTS, buf['deadline'] == at_entry(buf['deadline']),
              at_entry(buf['next_packet_to_send']) <= buf['next_packet_to_send'],
              buf['next_wait_on_cts'] == at_entry(buf['next_wait_on_cts']),
              len(trace) == at_entry(len(trace)) + buf['next_packet_to_send'] - at_entry(buf['next_packet_to_send']),
              released_only(self),
              same_list(pool_rts(self), at_entry(pool_rts(self))), same_list(pool_bam(self), at_entry(pool_bam(self))),
              # the burst continues only while no window end was reached and no pacing interval is configured
              implies(buf['next_packet_to_send'] > at_entry(buf['next_packet_to_send']),
                      is_none(self._minimum_tp_rts_cts_dt_interval)
                      and forall(lambda p: p != buf['next_wait_on_cts'], at_entry(buf['next_packet_to_send']), buf['next_packet_to_send'])))
    # every iteration of the burst emits the FD.TP.DT frame of the next stored segment (and the end-of-message status behind the last)
    body_ensures(4, "C02.segment.cmdt",
                 buf['next_packet_to_send'] == at_head(buf['next_packet_to_send']) + 1,
                 len(trace) == at_head(len(trace)) + ite(at_head(buf['next_packet_to_send']) + 1 == buf['num_segments'], 2, 1),
                 is_fd_dt(trace[at_head(len(trace))], send, buf['dest_address'], buf['src_address'], buf['session'],
                          at_head(buf['next_packet_to_send']), buf['data'][at_head(buf['next_packet_to_send'])]),
                 implies(at_head(buf['next_packet_to_send']) + 1 == buf['num_segments'],
                         is_fd_sent(trace[-1], send, fd_cm_id(7, buf['dest_address'], buf['src_address']),
                                    fd_cm(FD_EOMS, buf['session'], buf['message_size'], buf['num_segments'], 0, 0, buf['pgn']))
                         and buf['state'] == S22_WAITING_EOMA and at_head(clock) + T5 <= buf['deadline']))

    # per visited send session
    body_ensures(3, "C06.fd.expire.snd",
                 implies(at_head(buf['deadline']) > now,
                         len(trace) == at_head(len(trace)) and has_key(self._snd_buffer, bufid)
                         and buf['deadline'] == at_head(buf['deadline']) and buf['state'] == at_head(buf['state'])
                         and buf['next_packet_to_send'] == at_head(buf['next_packet_to_send'])),
                 # no CTS in time: connection abort (reason 3) to the peer, session removed
                 implies(at_head(buf['deadline']) <= now and at_head(buf['state']) == S22_WAITING_CTS,
                         not has_key(self._snd_buffer, bufid) and len(trace) == at_head(len(trace)) + 1
                         and is_fd_sent(trace[-1], send, fd_cm_id(7, at_head(buf['dest_address']), at_head(buf['src_address'])),
                                        fd_cm(FD_ABORT, at_head(buf['session']), 0xFFFFFF, 0xFFFFFF, 0xFF, ABORT_TIMEOUT, at_head(buf['pgn'])))),
                 # no acknowledge within T5 / acknowledged / aborted by the peer: removed silently
                 implies(at_head(buf['deadline']) <= now and (at_head(buf['state']) == S22_WAITING_EOMA or at_head(buf['state']) == S22_EOMA_RECEIVED
                                                              or at_head(buf['state']) == S22_FINISHED),
                         not has_key(self._snd_buffer, bufid) and len(trace) == at_head(len(trace))))
    # C10: the session number goes back to the pool it was taken from exactly when the session is removed; nothing else changes
    body_ensures(3, "C10.fd.release",
                 implies(has_key(self._snd_buffer, bufid),
                         same_list(pool_rts(self), at_head(pool_rts(self))) and same_list(pool_bam(self), at_head(pool_bam(self)))),
                 implies(not has_key(self._snd_buffer, bufid) and at_head(buf['dest_address']) != 255,
                         pool_rts(self)[at_head(buf['session'])] == True and same_list(pool_bam(self), at_head(pool_bam(self)))
                         and forall(lambda i: implies(i != at_head(buf['session']), pool_rts(self)[i] == at_head(pool_rts(self))[i]), 0, 8)),
                 implies(not has_key(self._snd_buffer, bufid) and at_head(buf['dest_address']) == 255,
                         pool_bam(self)[at_head(buf['session'])] == True and same_list(pool_rts(self), at_head(pool_rts(self)))
                         and forall(lambda i: implies(i != at_head(buf['session']), pool_bam(self)[i] == at_head(pool_bam(self))[i]), 0, 4)))
    body_ensures(3, "C09.fd.burst",
                 implies(at_head(buf['deadline']) <= now and at_head(buf['state']) == S22_SENDING_RTS_CTS,
                         has_key(self._snd_buffer, bufid) and buf['deadline'] > now
                         # never past the window end of the grant; without pacing exactly up to it
                         and buf['next_packet_to_send'] <= at_head(buf['next_wait_on_cts']) + 1
                         and buf['next_packet_to_send'] > at_head(buf['next_packet_to_send'])
                         and implies(is_none(self._minimum_tp_rts_cts_dt_interval),
                                     buf['next_packet_to_send'] == at_head(buf['next_wait_on_cts']) + 1)
                         and implies(not is_none(self._minimum_tp_rts_cts_dt_interval),
                                     buf['next_packet_to_send'] == at_head(buf['next_packet_to_send']) + 1)
                         # then it waits: for the acknowledge (T5) after the last segment, else for the next CTS (T3) at the window
                         # end, else for the pacing interval
                         and ite(buf['next_packet_to_send'] == buf['num_segments'],
                                 buf['state'] == S22_WAITING_EOMA and at_head(clock) + T5 <= buf['deadline'],
                                 ite(buf['next_packet_to_send'] == at_head(buf['next_wait_on_cts']) + 1,
                                     buf['state'] == S22_WAITING_CTS and at_head(clock) + T3 <= buf['deadline'],
                                     buf['state'] == S22_SENDING_RTS_CTS
                                     and at_head(clock) + self._minimum_tp_rts_cts_dt_interval <= buf['deadline']))))
    body_ensures(3, "C09.fd.pace.bam",
                 # broadcast: exactly one segment per expired deadline, the next one not before the configured interval;
                 # after the last segment the end-of-message status follows one interval later, then the session ends
                 implies(at_head(buf['deadline']) <= now and at_head(buf['state']) == S22_SENDING_BAM,
                         has_key(self._snd_buffer, bufid) and len(trace) == at_head(len(trace)) + 1
                         and is_fd_dt(trace[-1], send, 255, buf['src_address'], buf['session'], at_head(buf['next_packet_to_send']),
                                      buf['data'][at_head(buf['next_packet_to_send'])])
                         and buf['next_packet_to_send'] == at_head(buf['next_packet_to_send']) + 1
                         and at_head(clock) + self._minimum_tp_bam_dt_interval <= buf['deadline']
                         and buf['state'] == ite(buf['next_packet_to_send'] < buf['num_segments'], S22_SENDING_BAM, S22_SENDING_EOMS)),
                 implies(at_head(buf['deadline']) <= now and at_head(buf['state']) == S22_SENDING_EOMS,
                         not has_key(self._snd_buffer, bufid) and len(trace) == at_head(len(trace)) + 1
                         and is_fd_sent(trace[-1], send, fd_cm_id(7, 255, at_head(buf['src_address'])),
                                        fd_cm(FD_EOMS, at_head(buf['session']), at_head(buf['message_size']), at_head(buf['num_segments']), 0, 0,
                                              at_head(buf['pgn'])))))
    ensures("C07.inv22.pass", inv22(self))
    ensures("C10.fd.pass.released_only", released_only(self))
    # every deadline that has passed was re-armed in the future or its session / buffer removed; the returned wake-up is in
    # the future and not later than any remaining deadline: the background thread neither stalls nor spins
    ensures("C07.progress.22", result > now, result <= now + 5,
            keys_forall(self._rcv_buffer, lambda k, r: r['deadline'] > now and result <= r['deadline']),
            keys_forall(self._snd_buffer, lambda k, r: r['deadline'] > now and result <= r['deadline']),
            keys_forall(self._multi_pg_snd_buffer, lambda k, r: r['deadline'] > now and result <= r['deadline']))
