# J1939-21 background pass (async_job_thread): time-outs, aborts, bursts, BAM pacing.
# C06 (expiry => abort + removal), C07 (pass total and progressing), C09 (burst = grant, pacing),
# C01 (segmentation: k-th DT = payload[7k:7k+7], state advanced before the frame goes out), C10 (release).
#
# Loops (source order): 1 receive sessions, 2 send sessions, 3 burst, 4 padding (burst), 5 padding (BAM).
# The two session loops are verified per iteration (body_ensures) over an arbitrary key of the snapshot.

def rcv_done(dll, k, now, wake):
    # a visited receive session is either removed or armed in the future, and the wake-up is not later
    return (not has_key(dll._rcv_buffer, k)
            or (dll._rcv_buffer[k]['deadline'] > now and wake <= dll._rcv_buffer[k]['deadline']))


def snd_done(dll, k, now, wake):
    return (not has_key(dll._snd_buffer, k)
            or (dll._snd_buffer[k]['deadline'] > now and wake <= dll._snd_buffer[k]['deadline']))


@unit("j1939.j1939_21:J1939_21.async_job_thread", props=["C01", "C03", "C06", "C07", "C09", "C10"])
def _(self: "J1939_21", now: "real"):
    requires(inv21(self), now <= clock, now > 0)
    returns("real")
    let("n0", len(trace))
    let("send", self.__send_message)
    # loops 4 and 5: padding of the last packet with 0xFF
    invariant(4, at_entry(len(data)) <= len(data), len(data) <= 7,
              forall(lambda i: data[i] == at_entry(data[i]), 0, at_entry(len(data))),
              forall(lambda i: data[i] == 255, at_entry(len(data)), len(data)))
    invariant(5, at_entry(len(data)) <= len(data), len(data) <= 7,
              forall(lambda i: data[i] == at_entry(data[i]), 0, at_entry(len(data))),
              forall(lambda i: data[i] == 255, at_entry(len(data)), len(data)))

    # ---------------------------------------------------------------- loop 1: receive sessions
    invariant(1, inv21(self), _i1 <= len(_l1), now < next_wakeup, next_wakeup <= now + 5,
              # keys only disappear
              keys_forall(self._rcv_buffer, lambda k, r: at_entry(has_key(self._rcv_buffer, k))),
              forall(lambda j: rcv_done(self, _l1[j], now, next_wakeup), 0, _i1),
              # sessions not visited yet are untouched
              forall(lambda j: has_key(self._rcv_buffer, _l1[j])
                     and self._rcv_buffer[_l1[j]] == at_entry(self._rcv_buffer[_l1[j]]), _i1, len(_l1)))
    # per visited session
    body_ensures(1, "C06.expire.rcv",
                 # still running: untouched, nothing sent; the wake-up is no later than its deadline
                 implies(at_head(self._rcv_buffer[bufid]['deadline']) > now,
                         len(trace) == at_head(len(trace)) and has_key(self._rcv_buffer, bufid)
                         and self._rcv_buffer[bufid]['deadline'] == at_head(self._rcv_buffer[bufid]['deadline'])),
                 # timed out: removed; a connection-mode session is aborted (reason 3) towards the originator
                 implies(at_head(self._rcv_buffer[bufid]['deadline']) <= now, not has_key(self._rcv_buffer, bufid)),
                 implies(at_head(self._rcv_buffer[bufid]['deadline']) <= now and at_head(self._rcv_buffer[bufid]['dest_address']) != 255,
                         len(trace) == at_head(len(trace)) + 1
                         and is_sent(trace[-1], send,
                                     tp_cm_id(7, at_head(self._rcv_buffer[bufid]['src_address']), at_head(self._rcv_buffer[bufid]['dest_address'])),
                                     cm_abort(ABORT_TIMEOUT, at_head(self._rcv_buffer[bufid]['pgn'])))),
                 implies(at_head(self._rcv_buffer[bufid]['deadline']) <= now and at_head(self._rcv_buffer[bufid]['dest_address']) == 255,
                         len(trace) == at_head(len(trace))))

    # ---------------------------------------------------------------- loop 2: send sessions
    invariant(2, inv21(self), _i2 <= len(_l2), now < next_wakeup, next_wakeup <= now + 5,
              keys_forall(self._snd_buffer, lambda k, r: at_entry(has_key(self._snd_buffer, k))),
              forall(lambda j: snd_done(self, _l2[j], now, next_wakeup), 0, _i2),
              forall(lambda j: has_key(self._snd_buffer, _l2[j])
                     and self._snd_buffer[_l2[j]] == at_entry(self._snd_buffer[_l2[j]]), _i2, len(_l2)),
              # the receive table is final: every remaining session is armed in the future
              keys_forall(self._rcv_buffer, lambda k, r: r['deadline'] > now and next_wakeup <= r['deadline']))
    # ---------------------------------------------------------------- loop 3: burst of a connection-mode session
    invariant(3, inv21(self), has_key(self._snd_buffer, bufid), self._snd_buffer[bufid] == buf,
              buf['state'] == S21_SENDING_IN_CTS, buf['deadline'] == at_entry(buf['deadline']),
              at_entry(buf['next_packet_to_send']) <= buf['next_packet_to_send'],
              len(trace) == at_entry(len(trace)) + buf['next_packet_to_send'] - at_entry(buf['next_packet_to_send']),
              # the packets sent so far in this burst: consecutive TP.DT frames of this session
              forall(lambda j: is_dt_hdr(trace[at_entry(len(trace)) + j], send, buf['dest_address'], buf['src_address'],
                                         at_entry(buf['next_packet_to_send']) + j),
                     0, buf['next_packet_to_send'] - at_entry(buf['next_packet_to_send'])),
              # the burst continues only while no window end was reached and no pacing interval is configured
              implies(buf['next_packet_to_send'] > at_entry(buf['next_packet_to_send']),
                      is_none(self._minimum_tp_rts_cts_dt_interval)
                      and forall(lambda p: p != buf['next_wait_on_cts'], at_entry(buf['next_packet_to_send']), buf['next_packet_to_send'])))
    # every iteration of the burst emits exactly one frame: the TP.DT with the next seven octets of the payload
    body_ensures(3, "C01.segment.cmdt",
                 len(trace) == at_head(len(trace)) + 1,
                 buf['next_packet_to_send'] == at_head(buf['next_packet_to_send']) + 1,
                 is_dt(trace[-1], send, buf['dest_address'], buf['src_address'], buf['data'], buf['message_size'],
                       at_head(buf['next_packet_to_send'])))
    # state is advanced before the frame is handed to the bus (an immediate reply sees consistent state)
    callout_check("C01.segment.anticipate",
                  buf['next_packet_to_send'] == data[0],
                  implies(buf['dest_address'] != 255 and data[0] - 1 == buf['next_wait_on_cts'], buf['state'] == S21_WAITING_CTS),
                  implies(buf['dest_address'] == 255 and data[0] == buf['num_packages'],
                          not has_key(self._snd_buffer, hash21(buf['src_address'], buf['dest_address']))),
                  within="J1939_21.__send_tp_dt")

    # per visited send session
    body_ensures(2, "C06.expire.snd",
                 implies(at_head(buf['deadline']) > now,
                         len(trace) == at_head(len(trace)) and has_key(self._snd_buffer, bufid)
                         and buf['deadline'] == at_head(buf['deadline']) and buf['state'] == at_head(buf['state'])
                         and buf['next_packet_to_send'] == at_head(buf['next_packet_to_send'])),
                 # no CTS / no acknowledge in time: connection abort (reason 3) to the peer, session released
                 implies(at_head(buf['deadline']) <= now and at_head(buf['state']) == S21_WAITING_CTS,
                         not has_key(self._snd_buffer, bufid) and len(trace) == at_head(len(trace)) + 1
                         and is_sent(trace[-1], send, tp_cm_id(7, at_head(buf['dest_address']), at_head(buf['src_address'])),
                                     cm_abort(ABORT_TIMEOUT, at_head(buf['pgn'])))),
                 implies(at_head(buf['deadline']) <= now and at_head(buf['state']) == S21_FINISHED,
                         not has_key(self._snd_buffer, bufid) and len(trace) == at_head(len(trace))))
    body_ensures(2, "C09.burst",
                 # connection mode: only TP.DT frames of this session, in order, one per packet advanced
                 implies(at_head(buf['deadline']) <= now and at_head(buf['state']) == S21_SENDING_IN_CTS,
                         has_key(self._snd_buffer, bufid)),
                 implies(at_head(buf['deadline']) <= now and at_head(buf['state']) == S21_SENDING_IN_CTS,
                         len(trace) == at_head(len(trace)) + buf['next_packet_to_send'] - at_head(buf['next_packet_to_send'])),
                 implies(at_head(buf['deadline']) <= now and at_head(buf['state']) == S21_SENDING_IN_CTS,
                         forall(lambda j: is_dt_hdr(trace[at_head(len(trace)) + j], send, buf['dest_address'], buf['src_address'],
                                                    at_head(buf['next_packet_to_send']) + j),
                                0, buf['next_packet_to_send'] - at_head(buf['next_packet_to_send']))),
                 # afterwards the session waits (for CTS / EndOfMsgACK, T3) or for its pacing interval
                 implies(at_head(buf['deadline']) <= now and at_head(buf['state']) == S21_SENDING_IN_CTS,
                         buf['deadline'] > now),
                 # with a sane grant (first packet <= window end < number of packets) the burst never passes the window
                 # end, and without pacing it sends exactly up to it and then waits for the next CTS
                 implies(at_head(buf['deadline']) <= now and at_head(buf['state']) == S21_SENDING_IN_CTS
                         and at_head(buf['next_packet_to_send']) <= at_head(buf['next_wait_on_cts'])
                         and at_head(buf['next_wait_on_cts']) < buf['num_packages'],
                         buf['next_packet_to_send'] <= at_head(buf['next_wait_on_cts']) + 1
                         and implies(is_none(self._minimum_tp_rts_cts_dt_interval),
                                     buf['next_packet_to_send'] == at_head(buf['next_wait_on_cts']) + 1
                                     and buf['state'] == S21_WAITING_CTS
                                     and at_head(clock) + T3 <= buf['deadline'])
                         and implies(not is_none(self._minimum_tp_rts_cts_dt_interval),
                                     buf['next_packet_to_send'] == at_head(buf['next_packet_to_send']) + 1)))
    body_ensures(2, "C09.pace.bam",
                 # broadcast: exactly one packet per expired deadline, the next one not before the configured interval
                 implies(at_head(buf['deadline']) <= now and at_head(buf['state']) == S21_SENDING_BM,
                         len(trace) == at_head(len(trace)) + 1
                         and is_dt(trace[-1], send, 255, buf['src_address'], buf['data'], buf['message_size'], at_head(buf['next_packet_to_send']))
                         and buf['next_packet_to_send'] == at_head(buf['next_packet_to_send']) + 1
                         and ite(buf['next_packet_to_send'] < buf['num_packages'],
                                 has_key(self._snd_buffer, bufid) and buf['state'] == S21_SENDING_BM
                                 and at_head(clock) + self._minimum_tp_bam_dt_interval <= buf['deadline'],
                                 not has_key(self._snd_buffer, bufid))))
    ensures("C07.inv21.pass", inv21(self))
    # every deadline that has passed was re-armed in the future or its session removed; the returned wake-up is in
    # the future and not later than any remaining deadline: the background thread neither stalls nor spins
    ensures("C07.progress.21", result > now, result <= now + 5,
            keys_forall(self._rcv_buffer, lambda k, r: r['deadline'] > now and result <= r['deadline']),
            keys_forall(self._snd_buffer, lambda k, r: r['deadline'] > now and result <= r['deadline']))
