# ElectronicControlUnit / MessageListener: C05 (bus-listener flag filter, per-listener delivery rule),
# C12 (timer and listener registrations), forwarding entry points.

def listens(sub, dest):
    # the per-listener delivery rule of the property statement:
    #   unfiltered listener | broadcast | predicate accepts the destination | bound to exactly this destination
    return (sub['dev_adr'] == None or dest == ADDR_GLOBAL
            or (callable(sub['dev_adr']) and sub['dev_adr'](dest))
            or dest == sub['dev_adr'])


def is_delivery(ev, cb, priority, pgn, sa, timestamp, data):
    return (ev.fn == cb and ev.n == 5 and ev.i0 == priority and ev.i1 == pgn and ev.i2 == sa and ev.r3 == timestamp
            and same_list(ev.l4, data))


# ------------------------------------------------------------------ bus listener

@unit("j1939.electronic_control_unit:MessageListener.on_message_received", props=["C05", "C07"])
def _(self: "MessageListener", msg: "CanMessage"):
    opaque("ElectronicControlUnit.notify")
    # whatever frame handling raises is contained here
    opaque_raises("ElectronicControlUnit.notify", "Exception", "IndexError", "KeyError", "RuntimeError", "AssertionError")
    let("n0", len(trace))
    let("process", not self.stopped and not msg.is_error_frame and not msg.is_remote_frame and msg.is_extended_id)
    ensures("C05.listener.flags",
            implies(not process, len(trace) == n0),
            implies(process, len(trace) == n0 + 1 and trace[-1].fn == fn("ElectronicControlUnit.notify")
                    and trace[-1].a0 == self.ecu and trace[-1].a1 == msg.arbitration_id and trace[-1].a2 == msg.data
                    and trace[-1].a3 == msg.timestamp))
    # no raises clause: no exception may escape (C07.contain)


# ------------------------------------------------------------------ listener registrations and fan-out

@unit("j1939.electronic_control_unit:ElectronicControlUnit.subscribe", props=["C12", "C05"])
def _(self: "ElectronicControlUnit", callback: "func", device_address: "union(none, int, funcT(bool, True))"):
    let("n0", len(self._subscribers))
    ensures("C12.subscribe", len(self._subscribers) == n0 + 1,
            self._subscribers[-1]['cb'] == callback, self._subscribers[-1]['dev_adr'] == device_address,
            forall(lambda j: self._subscribers[j] == old(self._subscribers[j]), 0, n0),
            len(trace) == old(len(trace)))


@unit("j1939.electronic_control_unit:ElectronicControlUnit._notify_subscribers", props=["C05", "C01", "C02", "C11", "C16", "C17"])
def _(self: "ElectronicControlUnit", priority: "int", pgn: "int", sa: "int", dest: "int", timestamp: "real", data: "octets"):
    requires(inv_ecu(self))
    let("n0", len(trace))
    invariant(1, _i1 <= len(self._subscribers),
              len(trace) == n0 + count(lambda j: listens(self._subscribers[j], dest), 0, _i1),
              # (strictness of the counting function at selected listeners - keeps earlier deliveries below the new one)
              forall(lambda j: implies(listens(self._subscribers[j], dest),
                                       count(lambda k: listens(self._subscribers[k], dest), 0, j)
                                       < count(lambda k: listens(self._subscribers[k], dest), 0, _i1)), 0, _i1),
              forall(lambda j: implies(listens(self._subscribers[j], dest),
                                       is_delivery(trace[n0 + count(lambda k: listens(self._subscribers[k], dest), 0, j)],
                                                   self._subscribers[j]['cb'], priority, pgn, sa, timestamp, data)), 0, _i1))
    # exactly the listeners selected by the rule, once each, in registration order, with the message unchanged
    ensures("C05.fanout",
            len(trace) == n0 + count(lambda j: listens(self._subscribers[j], dest), 0, len(self._subscribers)),
            forall(lambda j: implies(listens(self._subscribers[j], dest),
                                     is_delivery(trace[n0 + count(lambda k: listens(self._subscribers[k], dest), 0, j)],
                                                 self._subscribers[j]['cb'], priority, pgn, sa, timestamp, data)),
                   0, len(self._subscribers)))


@unit("j1939.electronic_control_unit:ElectronicControlUnit._is_message_acceptable", props=["C05"])
def _(self: "ElectronicControlUnit", dest: "int"):
    requires(inv_ecu(self))
    invariant(1, _i1 <= len(self._subscribers),
              forall(lambda j: not (self._subscribers[j]['dev_adr'] == dest), 0, _i1))
    ensures("C05.ecu.accept", result == exists(lambda j: self._subscribers[j]['dev_adr'] == dest, 0, len(self._subscribers)))
    ensures("C05.ecu.accept.pure", len(trace) == old(len(trace)))


# ------------------------------------------------------------------ forwarding entry points

@unit("j1939.electronic_control_unit:ElectronicControlUnit.notify", props=["C05", "C07"])
def _(self: "ElectronicControlUnit", can_id: "int", data: "octets", timestamp: "real"):
    opaque("J1939_21.notify")
    ensures("C05.ecu.notify_forward", len(trace) == old(len(trace)) + 1, trace[-1].fn == fn("J1939_21.notify"),
            trace[-1].a0 == self.j1939_dll, trace[-1].a1 == can_id, trace[-1].a2 == data, trace[-1].a3 == timestamp)


@unit("j1939.electronic_control_unit:ElectronicControlUnit.send_pgn", props=["C13", "C01", "C02"])
def _(self: "ElectronicControlUnit", data_page: "int", pdu_format: "int", pdu_specific: "int", priority: "int", src_address: "int",
      data: "octets", time_limit: "real", frame_format: "int"):
    opaque("J1939_21.send_pgn")
    ensures("C13.ecu.send_pgn_forward", len(trace) == old(len(trace)) + 1, trace[-1].fn == fn("J1939_21.send_pgn"),
            trace[-1].a0 == self.j1939_dll, trace[-1].a1 == data_page, trace[-1].a2 == pdu_format, trace[-1].a3 == pdu_specific,
            trace[-1].a4 == priority, trace[-1].a5 == src_address, trace[-1].a6 == data, trace[-1].a7 == time_limit,
            trace[-1].a8 == frame_format)


# ------------------------------------------------------------------ timers: registration

@unit("j1939.electronic_control_unit:ElectronicControlUnit.add_timer", props=["C12"])
def _(self: "ElectronicControlUnit", delta_time: "real", callback: "func", cookie: "ANY"):
    opaque("ElectronicControlUnit._job_thread_wakeup")
    let("n0", len(self._timer_events))
    # one new registration, due delta after the call, nothing else touched, background thread woken
    ensures("C12.add", len(self._timer_events) == n0 + 1,
            self._timer_events[-1]['callback'] == callback, self._timer_events[-1]['delta_time'] == delta_time,
            self._timer_events[-1]['cookie'] == cookie,
            old(clock) + delta_time <= self._timer_events[-1]['deadline'],
            self._timer_events[-1]['deadline'] <= clock + delta_time,
            forall(lambda j: self._timer_events[j] == old(self._timer_events[j])
                   and self._timer_events[j]['deadline'] == old(self._timer_events[j]['deadline'])
                   and self._timer_events[j]['callback'] == old(self._timer_events[j]['callback'])
                   and self._timer_events[j]['delta_time'] == old(self._timer_events[j]['delta_time']), 0, n0))
    ensures("C12.add.wake", len(trace) == old(len(trace)) + 1, trace[-1].fn == fn("ElectronicControlUnit._job_thread_wakeup"))


# ------------------------------------------------------------------ removal of registrations (C12)
# kept(j) = number of registrations among the first j that do NOT carry the callback; the result is exactly the kept
# registrations, in order: result[kept(j)] is the j-th old registration whenever that one is kept.

@unit("j1939.electronic_control_unit:ElectronicControlUnit.remove_timer", props=["C12", "C16"])
def _(self: "ElectronicControlUnit", callback: "func"):
    requires(inv_ecu(self))
    opaque("ElectronicControlUnit._job_thread_wakeup")
    let("n", len(self._timer_events))
    invariant(1, _i1 <= n, len(_l1) == n, len(trace) == old(len(trace)),
              forall(lambda a, b: implies(0 <= a and a < b and b < n, old(self._timer_events[a]) != old(self._timer_events[b]))),
              forall(lambda j: _l1[j] == old(self._timer_events[j]) and has_key(_l1[j], 'callback')
                     and _l1[j]['callback'] == old(self._timer_events[j]['callback']), 0, n),
              len(self._timer_events) == count(lambda k: old(self._timer_events[k]['callback']) != callback, 0, _i1) + n - _i1,
              forall(lambda j: implies(old(self._timer_events[j]['callback']) != callback,
                                       self._timer_events[count(lambda k: old(self._timer_events[k]['callback']) != callback, 0, j)]
                                       == old(self._timer_events[j])), 0, _i1),
              forall(lambda j: self._timer_events[count(lambda k: old(self._timer_events[k]['callback']) != callback, 0, _i1) + j - _i1]
                     == old(self._timer_events[j]), _i1, n),
              # the kept prefix holds no registration that is still to be visited and none with the callback
              forall(lambda q, m: implies(0 <= q and q < count(lambda k: old(self._timer_events[k]['callback']) != callback, 0, _i1)
                                          and _i1 <= m and m < n, self._timer_events[q] != old(self._timer_events[m]))),
              forall(lambda q: self._timer_events[q]['callback'] != callback,
                     0, count(lambda k: old(self._timer_events[k]['callback']) != callback, 0, _i1)),
              inv_ecu(self))
    # afterwards no registration with that callback is left, every other one is kept, in order
    ensures("C12.remove_all",
            len(self._timer_events) == count(lambda k: old(self._timer_events[k]['callback']) != callback, 0, n),
            forall(lambda j: implies(old(self._timer_events[j]['callback']) != callback,
                                     self._timer_events[count(lambda k: old(self._timer_events[k]['callback']) != callback, 0, j)]
                                     == old(self._timer_events[j])), 0, n))
    ensures("C12.remove.none_left", forall(lambda p: self._timer_events[p]['callback'] != callback, 0, len(self._timer_events)))
    ensures("C12.remove.wake", len(trace) == old(len(trace)) + 1, trace[-1].fn == fn("ElectronicControlUnit._job_thread_wakeup"))
    ensures("C12.remove.inv", inv_ecu(self))


@unit("j1939.electronic_control_unit:ElectronicControlUnit.unsubscribe", props=["C12", "C05"])
def _(self: "ElectronicControlUnit", callback: "func"):
    requires(inv_ecu(self))
    let("n", len(self._subscribers))
    invariant(1, _i1 <= n, len(_l1) == n, len(trace) == old(len(trace)),
              forall(lambda a, b: implies(0 <= a and a < b and b < n, old(self._subscribers[a]) != old(self._subscribers[b]))),
              forall(lambda j: _l1[j] == old(self._subscribers[j]) and has_key(_l1[j], 'cb')
                     and _l1[j]['cb'] == old(self._subscribers[j]['cb']), 0, n),
              len(self._subscribers) == count(lambda k: old(self._subscribers[k]['cb']) != callback, 0, _i1) + n - _i1,
              forall(lambda j: implies(old(self._subscribers[j]['cb']) != callback,
                                       self._subscribers[count(lambda k: old(self._subscribers[k]['cb']) != callback, 0, j)]
                                       == old(self._subscribers[j])), 0, _i1),
              forall(lambda j: self._subscribers[count(lambda k: old(self._subscribers[k]['cb']) != callback, 0, _i1) + j - _i1]
                     == old(self._subscribers[j]), _i1, n),
              # the kept prefix holds no registration that is still to be visited and none with the callback
              forall(lambda q, m: implies(0 <= q and q < count(lambda k: old(self._subscribers[k]['cb']) != callback, 0, _i1)
                                          and _i1 <= m and m < n, self._subscribers[q] != old(self._subscribers[m]))),
              forall(lambda q: self._subscribers[q]['cb'] != callback,
                     0, count(lambda k: old(self._subscribers[k]['cb']) != callback, 0, _i1)),
              inv_ecu(self))
    # afterwards no registration with that callback is left, every other one is kept, in order
    ensures("C12.unsub_all",
            len(self._subscribers) == count(lambda k: old(self._subscribers[k]['cb']) != callback, 0, n),
            forall(lambda j: implies(old(self._subscribers[j]['cb']) != callback,
                                     self._subscribers[count(lambda k: old(self._subscribers[k]['cb']) != callback, 0, j)]
                                     == old(self._subscribers[j])), 0, n))
    ensures("C12.unsub.none_left", forall(lambda p: self._subscribers[p]['cb'] != callback, 0, len(self._subscribers)))
    ensures("C12.unsub.silent", len(trace) == old(len(trace)))
    ensures("C12.unsub.inv", inv_ecu(self))


# ------------------------------------------------------------------ the background thread: one pass per iteration (C12)
# loops: 1 the thread loop (one iteration = link-layer pass + timer pass + sleep), 2 the timer pass, 3 overrun catch-up

def timer_rec_unchanged(r):
    # the fields of registration r as at the start of this iteration
    return (r['deadline'] == at_head(r['deadline']) and r['callback'] == at_head(r['callback'])
            and r['delta_time'] == at_head(r['delta_time']))


def registered(ecu, e):
    return exists(lambda p: ecu._timer_events[p] == e, 0, len(ecu._timer_events))


@unit("j1939.electronic_control_unit:ElectronicControlUnit._async_job_thread", props=["C12", "C07", "C16"])
def _(self: "ElectronicControlUnit"):
    requires(inv_ecu(self))
    opaque("J1939_21.async_job_thread")
    queue_get("extern")
    # proved for the link layer (C07.progress): the pass returns a wake-up in (now, now + 5]
    callout_assume("J1939_21.async_job_thread(now) returns a time in (now, now+5] (obligation C07.progress.21)",
                   now < ret and ret <= now + 5, on=fn("J1939_21.async_job_thread"))
    invariant(1, inv_ecu(self))
    # ---- timer pass
    invariant(2, inv_ecu(self), _i2 <= len(_l2), next_wakeup <= now + 5,
              forall(lambda j: has_keys(_l2[j], 'callback', 'deadline', 'delta_time', 'cookie'), 0, len(_l2)),
              # visited registrations that are still registered: the wake-up is not later than their deadline
              forall(lambda j: implies(registered(self, _l2[j]), next_wakeup <= _l2[j]['deadline']), 0, _i2))
    invariant(3, inv_ecu(self), registered(self, event),
              steps(at_entry(event['deadline']), event['delta_time'], event['deadline']),
              event['deadline'] == at_entry(event['deadline']) or event['deadline'] - event['delta_time'] < now,
              event['delta_time'] == at_entry(event['delta_time']),
              len(trace) == at_entry(len(trace)),
              forall(lambda p: implies(self._timer_events[p] != event,
                                       self._timer_events[p]['deadline'] == at_entry(self._timer_events[p]['deadline'])),
                     0, len(self._timer_events)))
    # a registration is called exactly when it is due, once, with its cookie
    body_ensures(2, "C12.pass.due",
                 implies(not at_head(registered(self, event)), len(trace) == at_head(len(trace))),
                 # no-early: not yet due -> not called, untouched, and the thread wakes up in time for it
                 implies(at_head(registered(self, event)) and at_head(event['deadline']) > now,
                         len(trace) == at_head(len(trace)) and event['deadline'] == at_head(event['deadline'])
                         and next_wakeup <= event['deadline'] and registered(self, event)),
                 implies(at_head(registered(self, event)) and at_head(event['deadline']) <= now,
                         len(trace) == at_head(len(trace)) + 1 and trace[-1].fn == at_head(event['callback'])
                         and trace[-1].n == 1 and trace[-1].a0 == at_head(event['cookie'])))
    # periodic (callback returned True): advanced by whole periods to the first instant >= now (no drift); one-shot: removed
    body_ensures(2, "C12.pass.rearm",
                 implies(at_head(registered(self, event)) and at_head(event['deadline']) <= now and trace[-1].ret == True,
                         registered(self, event)
                         and steps(at_head(event['deadline']), event['delta_time'], event['deadline'])
                         and event['deadline'] >= now
                         and (event['deadline'] == at_head(event['deadline']) or event['deadline'] - event['delta_time'] < now)
                         and next_wakeup <= event['deadline']),
                 implies(at_head(registered(self, event)) and at_head(event['deadline']) <= now and not (trace[-1].ret == True),
                         not registered(self, event)))
    # independence: no other registration is altered, removed or added by handling this one: the list is unchanged, or
    # exactly the handled one-shot entry is taken out and the order of all others is kept
    body_ensures(2, "C12.pass.independence",
                 forall(lambda p: implies(self._timer_events[p] != event, timer_rec_unchanged(self._timer_events[p])),
                        0, len(self._timer_events)),
                 len(self._timer_events) == at_head(len(self._timer_events))
                 or len(self._timer_events) == at_head(len(self._timer_events)) - 1,
                 implies(len(self._timer_events) == at_head(len(self._timer_events)),
                         forall(lambda p: self._timer_events[p] == at_head(self._timer_events[p]), 0, len(self._timer_events))),
                 implies(len(self._timer_events) == at_head(len(self._timer_events)) - 1,
                         0 <= last_removed_index() and last_removed_index() <= len(self._timer_events)
                         and at_head(self._timer_events[last_removed_index()]) == event
                         and forall(lambda p: self._timer_events[p] == at_head(self._timer_events[p]), 0, last_removed_index())
                         and forall(lambda p: self._timer_events[p] == at_head(self._timer_events[p + 1]),
                                    last_removed_index(), len(self._timer_events))))
    # the thread sleeps only for a positive time that ends no later than the earliest deadline it computed
    # (clock: the latest time reading or call-out return - real time never runs behind it)
    callout_check("C12.sleep", implies(ev.fn == fn("queue.Queue.get"), ev.r2 > 0 and ev.r2 <= next_wakeup - clock))


# ------------------------------------------------------------------ BOUNDED stand-ins (never counted as proved)
# The two removal functions above are verified for lists of any length through loop invariants, which are tied to the shape of
# the loop (iteration over a snapshot).  If the loop is rewritten the invariants no longer apply; these variants decide the same
# postconditions without invariants, by unrolling, for lists of at most 3 registrations (stated bound).

@unit("j1939.electronic_control_unit:ElectronicControlUnit.remove_timer", variant="bounded", bounded="at most 3 registrations", props=["C12"])
def _(self: "ElectronicControlUnit", callback: "func"):
    requires(inv_ecu(self), len(self._timer_events) <= 3)
    opaque("ElectronicControlUnit._job_thread_wakeup")
    let("n", len(self._timer_events))
    ensures("C12.remove.none_left.bounded", forall(lambda p: self._timer_events[p]['callback'] != callback, 0, len(self._timer_events)))
    ensures("C12.remove_all.bounded",
            len(self._timer_events) == ite(0 < n and old(self._timer_events[0]['callback']) != callback, 1, 0)
            + ite(1 < n and old(self._timer_events[1]['callback']) != callback, 1, 0)
            + ite(2 < n and old(self._timer_events[2]['callback']) != callback, 1, 0),
            forall(lambda j: implies(old(self._timer_events[j]['callback']) != callback,
                                     exists(lambda q: self._timer_events[q] == old(self._timer_events[j]), 0, len(self._timer_events))), 0, n))


@unit("j1939.electronic_control_unit:ElectronicControlUnit.unsubscribe", variant="bounded", bounded="at most 3 registrations", props=["C12"])
def _(self: "ElectronicControlUnit", callback: "func"):
    requires(inv_ecu(self), len(self._subscribers) <= 3)
    let("n", len(self._subscribers))
    ensures("C12.unsub.none_left.bounded", forall(lambda p: self._subscribers[p]['cb'] != callback, 0, len(self._subscribers)))
    ensures("C12.unsub_all.bounded",
            len(self._subscribers) == ite(0 < n and old(self._subscribers[0]['cb']) != callback, 1, 0)
            + ite(1 < n and old(self._subscribers[1]['cb']) != callback, 1, 0)
            + ite(2 < n and old(self._subscribers[2]['cb']) != callback, 1, 0),
            forall(lambda j: implies(old(self._subscribers[j]['cb']) != callback,
                                     exists(lambda q: self._subscribers[q] == old(self._subscribers[j]), 0, len(self._subscribers))), 0, n))
