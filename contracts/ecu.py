# ElectronicControlUnit / MessageListener: C05 (bus-listener flag filter, per-listener delivery rule),
# C12 (timer and listener registrations), forwarding entry points.

def listens(sub, dest):
    # the per-listener delivery rule of the property statement:
    #   unfiltered listener | broadcast | predicate accepts the destination | bound to exactly this destination
    return (sub['dev_adr'] == None or dest == ADDR_GLOBAL
            or (callable(sub['dev_adr']) and sub['dev_adr'](dest))
            or dest == sub['dev_adr'])


def is_delivery(ev, cb, priority, pgn, sa, timestamp, data):
    return (ev.fn == cb and ev.n == 5 and ev.i0 == priority and ev.i1 == pgn and ev.i2 == sa and ev.r3 == timestamp
            and same_list(ev.l4, data))


# ------------------------------------------------------------------ bus listener

@unit("j1939.electronic_control_unit:MessageListener.on_message_received", props=["C05", "C07"])
def _(self: "MessageListener", msg: "CanMessage"):
    opaque("ElectronicControlUnit.notify")
    # whatever frame handling raises is contained here
    opaque_raises("ElectronicControlUnit.notify", "Exception", "IndexError", "KeyError", "RuntimeError", "AssertionError")
    let("n0", len(trace))
    let("process", not self.stopped and not msg.is_error_frame and not msg.is_remote_frame and msg.is_extended_id)
    ensures("C05.listener.flags",
            implies(not process, len(trace) == n0),
            implies(process, len(trace) == n0 + 1 and trace[-1].fn == fn("ElectronicControlUnit.notify")
                    and trace[-1].a0 == self.ecu and trace[-1].a1 == msg.arbitration_id and trace[-1].a2 == msg.data
                    and trace[-1].a3 == msg.timestamp))
    # no raises clause: no exception may escape (C07.contain)


# ------------------------------------------------------------------ listener registrations and fan-out

@unit("j1939.electronic_control_unit:ElectronicControlUnit.subscribe", props=["C12", "C05"])
def _(self: "ElectronicControlUnit", callback: "func", device_address: "union(none, int, funcT(bool, True))"):
    let("n0", len(self._subscribers))
    ensures("C12.subscribe", len(self._subscribers) == n0 + 1,
            self._subscribers[-1]['cb'] == callback, self._subscribers[-1]['dev_adr'] == device_address,
            forall(lambda j: self._subscribers[j] == old(self._subscribers[j]), 0, n0),
            len(trace) == old(len(trace)))


@unit("j1939.electronic_control_unit:ElectronicControlUnit._notify_subscribers", props=["C05", "C01", "C02", "C11", "C16", "C17"])
def _(self: "ElectronicControlUnit", priority: "int", pgn: "int", sa: "int", dest: "int", timestamp: "real", data: "octets"):
    requires(inv_ecu(self))
    let("n0", len(trace))
    invariant(1, _i1 <= len(self._subscribers),
              len(trace) == n0 + count(lambda j: listens(self._subscribers[j], dest), 0, _i1),
              # (strictness of the counting function at selected listeners - keeps earlier deliveries below the new one)
              forall(lambda j: implies(listens(self._subscribers[j], dest),
                                       count(lambda k: listens(self._subscribers[k], dest), 0, j)
                                       < count(lambda k: listens(self._subscribers[k], dest), 0, _i1)), 0, _i1),
              forall(lambda j: implies(listens(self._subscribers[j], dest),
                                       is_delivery(trace[n0 + count(lambda k: listens(self._subscribers[k], dest), 0, j)],
                                                   self._subscribers[j]['cb'], priority, pgn, sa, timestamp, data)), 0, _i1))
    # exactly the listeners selected by the rule, once each, in registration order, with the message unchanged
    ensures("C05.fanout",
            len(trace) == n0 + count(lambda j: listens(self._subscribers[j], dest), 0, len(self._subscribers)),
            forall(lambda j: implies(listens(self._subscribers[j], dest),
                                     is_delivery(trace[n0 + count(lambda k: listens(self._subscribers[k], dest), 0, j)],
                                                 self._subscribers[j]['cb'], priority, pgn, sa, timestamp, data)),
                   0, len(self._subscribers)))


@unit("j1939.electronic_control_unit:ElectronicControlUnit._is_message_acceptable", props=["C05"])
def _(self: "ElectronicControlUnit", dest: "int"):
    requires(inv_ecu(self))
    invariant(1, _i1 <= len(self._subscribers),
              forall(lambda j: not (self._subscribers[j]['dev_adr'] == dest), 0, _i1))
    ensures("C05.ecu.accept", result == exists(lambda j: self._subscribers[j]['dev_adr'] == dest, 0, len(self._subscribers)))
    ensures("C05.ecu.accept.pure", len(trace) == old(len(trace)))


# ------------------------------------------------------------------ forwarding entry points

@unit("j1939.electronic_control_unit:ElectronicControlUnit.notify", props=["C05", "C07"])
def _(self: "ElectronicControlUnit", can_id: "int", data: "octets", timestamp: "real"):
    opaque("J1939_21.notify")
    ensures("C05.ecu.notify_forward", len(trace) == old(len(trace)) + 1, trace[-1].fn == fn("J1939_21.notify"),
            trace[-1].a0 == self.j1939_dll, trace[-1].a1 == can_id, trace[-1].a2 == data, trace[-1].a3 == timestamp)


@unit("j1939.electronic_control_unit:ElectronicControlUnit.send_pgn", props=["C13", "C01", "C02"])
def _(self: "ElectronicControlUnit", data_page: "int", pdu_format: "int", pdu_specific: "int", priority: "int", src_address: "int",
      data: "octets", time_limit: "real", frame_format: "int"):
    opaque("J1939_21.send_pgn")
    ensures("C13.ecu.send_pgn_forward", len(trace) == old(len(trace)) + 1, trace[-1].fn == fn("J1939_21.send_pgn"),
            trace[-1].a0 == self.j1939_dll, trace[-1].a1 == data_page, trace[-1].a2 == pdu_format, trace[-1].a3 == pdu_specific,
            trace[-1].a4 == priority, trace[-1].a5 == src_address, trace[-1].a6 == data, trace[-1].a7 == time_limit,
            trace[-1].a8 == frame_format)


# ------------------------------------------------------------------ timers: registration

@unit("j1939.electronic_control_unit:ElectronicControlUnit.add_timer", props=["C12"])
def _(self: "ElectronicControlUnit", delta_time: "real", callback: "func", cookie: "ANY"):
    opaque("ElectronicControlUnit._job_thread_wakeup")
    let("n0", len(self._timer_events))
    # one new registration, due delta after the call, nothing else touched, background thread woken
    ensures("C12.add", len(self._timer_events) == n0 + 1,
            self._timer_events[-1]['callback'] == callback, self._timer_events[-1]['delta_time'] == delta_time,
            self._timer_events[-1]['cookie'] == cookie,
            old(clock) + delta_time <= self._timer_events[-1]['deadline'],
            self._timer_events[-1]['deadline'] <= clock + delta_time,
            forall(lambda j: self._timer_events[j] == old(self._timer_events[j])
                   and self._timer_events[j]['deadline'] == old(self._timer_events[j]['deadline'])
                   and self._timer_events[j]['callback'] == old(self._timer_events[j]['callback'])
                   and self._timer_events[j]['delta_time'] == old(self._timer_events[j]['delta_time']), 0, n0))
    ensures("C12.add.wake", len(trace) == old(len(trace)) + 1, trace[-1].fn == fn("ElectronicControlUnit._job_thread_wakeup"))
