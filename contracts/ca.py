# ControllerApplication: C13 (send guard, held address), C04 (claim decision tables),
# C14 (request encode / filter / fan-out), C05 (message_acceptable)
#
# ECU-level calls (send_message, send_pgn, add_timer ...) are opaque here: they become events of
# the ghost trace, which the postconditions pin down exactly ("this frame and nothing else").

# ------------------------------------------------------------------ construction / accessors

@unit("j1939.controller_application:ControllerApplication.__init__", props=["C13", "C04"])
def _(self: "ControllerApplication", name: "Name", device_address_preferred: "opt(int)", bypass_address_claim: "bool"):
    requires(name_ok(name), implies(not is_none(device_address_preferred), 0 <= device_address_preferred <= 253))
    ensures("C13.inv.init", inv_ca(self))
    ensures("C13.init.state",
            ite(bypass_address_claim and not is_none(device_address_preferred),
                self._device_address_state == ST_NORMAL and self._device_address == device_address_preferred
                and self._device_address_announced == device_address_preferred,
                self._device_address_state == ST_NONE and self._device_address == ADDR_NULL
                and self._device_address_announced == ADDR_NULL),
            self._device_address_preferred == device_address_preferred, self._name == name,
            is_none(self._ecu), self._started == False, len(self._subscribers_request) == 0)
    ensures("C13.init.silent", len(trace) == old(len(trace)))


@unit("j1939.controller_application:ControllerApplication.state.getter", props=["C13", "C05"])
def _(self: "ControllerApplication"):
    ensures("C13.state_getter", result == self._device_address_state)


@unit("j1939.controller_application:ControllerApplication.device_address.getter", props=["C13", "C05"])
def _(self: "ControllerApplication"):
    requires(inv_ca(self))
    ensures("C13.device_address_getter", result == ite(self._device_address_state == ST_NORMAL, self._device_address, ADDR_NULL))


@unit("j1939.controller_application:ControllerApplication.message_acceptable", props=["C05", "C14"])
def _(self: "ControllerApplication", dest_address: "int"):
    requires(inv_ca(self))
    ensures("C05.ca.accept", result == (self._device_address_state == ST_NORMAL
                                         and (dest_address == ADDR_GLOBAL or dest_address == self._device_address)))
    ensures("C05.ca.accept.pure", len(trace) == old(len(trace)))


# ------------------------------------------------------------------ C13: send entry points

@unit("j1939.controller_application:ControllerApplication.send_message", props=["C13"])
def _(self: "ControllerApplication", priority: "int", parameter_group_number: "int", data: "octets"):
    requires(inv_ca(self), not is_none(self._ecu), -2**40 <= priority < 2**40, -2**40 <= parameter_group_number < 2**40)
    opaque("ElectronicControlUnit.send_message")
    modifies(trace)
    raises("RuntimeError", when=self._device_address_state != ST_NORMAL, post=len(trace) == old(len(trace)),
           label="C13.guard.send_message")
    ensures("C13.sa.send_message", len(trace) == old(len(trace)) + 1,
            is_raw_frame(trace[-1], self._ecu, can_id_of(priority, parameter_group_number, self._device_address)),
            trace[-1].a3 == data)


@unit("j1939.controller_application:ControllerApplication.send_pgn", props=["C13", "C16", "C17"])
def _(self: "ControllerApplication", data_page: "int", pdu_format: "int", pdu_specific: "int", priority: "int", data: "octets",
      time_limit: "real", frame_format: "int"):
    requires(inv_ca(self), not is_none(self._ecu))
    opaque("ElectronicControlUnit.send_pgn")
    modifies(trace)
    raises("RuntimeError", when=self._device_address_state != ST_NORMAL, post=len(trace) == old(len(trace)),
           label="C13.guard.send_pgn")
    ensures("C13.sa.send_pgn", len(trace) == old(len(trace)) + 1,
            is_send_pgn_ev(trace[-1], self._ecu, data_page, pdu_format, pdu_specific, priority, self._device_address),
            trace[-1].a6 == data, trace[-1].a7 == time_limit, trace[-1].a8 == frame_format)


@unit("j1939.controller_application:ControllerApplication.send_request", props=["C13", "C14"])
def _(self: "ControllerApplication", data_page: "int", pgn: "int", destination: "int"):
    requires(inv_ca(self), not is_none(self._ecu), 0 <= pgn < 2**24, -2**40 <= destination < 2**40)
    opaque("ElectronicControlUnit.send_pgn")
    modifies(trace)
    # without an address only a request for address claim may be sent (from the null address)
    raises("RuntimeError", when=self._device_address_state != ST_NORMAL and pgn != PGN_ADDRESSCLAIM,
           post=len(trace) == old(len(trace)), label="C13.guard.send_request")
    ensures("C14.enc", len(trace) == old(len(trace)) + 1,
            is_send_pgn_ev(trace[-1], self._ecu, data_page, 0xEA, bits(destination, 0, 8), 6,
                           ite(self._device_address_state == ST_NORMAL, self._device_address, ADDR_NULL)),
            # three octets, little endian: decoding them gives the requested PGN back
            len(trace[-1].a6) == 3, octets(trace[-1].a6),
            le3(trace[-1].a6[0], trace[-1].a6[1], trace[-1].a6[2]) == pgn)
    ensures("C13.sa.send_request", implies(self._device_address_state != ST_NORMAL, trace[-1].a5 == ADDR_NULL and pgn == PGN_ADDRESSCLAIM))


@unit("j1939.controller_application:ControllerApplication._send_address_claimed", props=["C13", "C04", "C14"])
def _(self: "ControllerApplication", address: "int"):
    requires(name_ok(self._name), not is_none(self._ecu), -2**40 <= address < 2**40)
    opaque("ElectronicControlUnit.send_message")
    bycontract("Name.bytes.getter")
    modifies(trace)
    ensures("C13.claims_only", len(trace) == old(len(trace)) + 1, is_claim_frame(trace[-1], self, name_value(self._name), address))


# ------------------------------------------------------------------ C04: claim state machine

@unit("j1939.controller_application:ControllerApplication._process_claim_async", props=["C04", "C13"])
def _(self: "ControllerApplication", cookie: "any"):
    requires(inv_ca(self), not is_none(self._ecu),
             implies(not is_none(self._device_address_preferred), 0 <= self._device_address_preferred <= 253))
    opaque("ElectronicControlUnit.send_message", "ElectronicControlUnit.add_timer")
    bycontract("Name.bytes.getter")
    let("st0", self._device_address_state)
    let("pref", self._device_address_preferred)
    let("ann0", self._device_address_announced)
    let("n0", len(trace))
    ensures("C13.inv.async", inv_ca(self))
    ensures("C04.async.result", result == False)
    # the timer is always re-armed, as the last action
    ensures("C04.async.rearm", len(trace) >= n0 + 1,
            is_timer_ev(trace[-1], self, ite(st0 == ST_NONE and not is_none(pref) and 127 < pref and pref < 248, 0.25, 0.5)))
    # not started yet and an address is configured: announce it; immediate range -> operational at once
    ensures("C04.async.none_pref", implies(st0 == ST_NONE and not is_none(pref),
            len(trace) == n0 + 2 and is_claim_frame(trace[n0], self, name_value(self._name), pref)
            and self._device_address_announced == pref
            and ite(127 < pref and pref < 248,
                    self._device_address_state == ST_WAIT_VETO and unchanged(self._device_address),
                    self._device_address_state == ST_NORMAL and self._device_address == pref)))
    ensures("C04.async.none_nopref", implies(st0 == ST_NONE and is_none(pref),
            len(trace) == n0 + 1 and unchanged(self._device_address_state, self._device_address, self._device_address_announced)))
    # no veto during the 250 ms window: operational on the announced address
    ensures("C04.async.wait_veto", implies(st0 == ST_WAIT_VETO,
            len(trace) == n0 + 1 and self._device_address_state == ST_NORMAL and self._device_address == ann0
            and unchanged(self._device_address_announced)))
    ensures("C04.async.settled", implies(st0 == ST_NORMAL or st0 == ST_CANNOT_CLAIM,
            len(trace) == n0 + 1 and unchanged(self._device_address_state, self._device_address, self._device_address_announced)))
    ensures("C04.async.frame", unchanged(self._device_address_preferred, self._started))


@unit("j1939.controller_application:ControllerApplication._process_addressclaim", props=["C04", "C13", "C15"])
def _(self: "ControllerApplication", mid: "MessageId", data: "octets", timestamp: "real"):
    requires(inv_ca(self), not is_none(self._ecu), len(data) == 8, octets(data),
             0 <= mid.source_address <= 255, 0 <= mid.priority < 8, 0 <= mid.parameter_group_number < 2**18)
    opaque("ElectronicControlUnit.send_message")
    bycontract("Name.bytes.getter", "Name.__init__")
    let("st0", self._device_address_state)
    let("ann0", self._device_address_announced)
    let("adr0", self._device_address)
    let("n0", len(trace))
    let("own", name_value(self._name))
    # the contender's NAME: 64-bit little-endian value of the data octets, reserved bit 48 read as 0
    let("raw", le8(data[0], data[1], data[2], data[3], data[4], data[5], data[6], data[7]))
    let("cont", bits(raw, 0, 48) + bits(raw, 49, 15) * 2**49)
    let("mine", (st0 == ST_NORMAL and mid.source_address == adr0) or (st0 == ST_WAIT_VETO and mid.source_address == ann0))
    let("aac", self._name.arbitrary_address_capable)
    ensures("C13.inv.contest", inv_ca(self))
    let("ignore", not mine or own == cont)
    let("win", mine and own < cont)
    let("lose_fixed", mine and own > cont and aac == 0)
    let("lose_aac", mine and own > cont and aac != 0)
    # a claim for an address we neither hold nor have announced, or from our own NAME: nothing happens
    ensures("C04.contest.ignore",
            implies(ignore, len(trace) == n0),
            implies(ignore, unchanged(self._device_address_state, self._device_address, self._device_address_announced)))
    # we have the lower NAME: keep state and address, repeat the claim from the contested address
    ensures("C04.contest.win",
            implies(win, len(trace) == n0 + 1),
            implies(win, unchanged(self._device_address_state, self._device_address, self._device_address_announced)),
            implies(win, is_claim_frame(trace[-1], self, own, mid.source_address)))
    # we have the higher NAME and cannot move: cannot-claim from the null address, address given up in the same call
    ensures("C04.contest.lose_fixed",
            implies(lose_fixed, len(trace) == n0 + 1),
            implies(lose_fixed, self._device_address_state == ST_CANNOT_CLAIM and is_none(self._device_address)),
            implies(lose_fixed, unchanged(self._device_address_announced)),
            implies(lose_fixed, is_claim_frame(trace[-1], self, own, ADDR_NULL)))
    # we have the higher NAME and are arbitrary-address-capable: claim the next address, wait for veto again
    ensures("C04.contest.lose_aac",
            implies(lose_aac, len(trace) == n0 + 1),
            implies(lose_aac, self._device_address_state == ST_WAIT_VETO and self._device_address == ADDR_NULL),
            implies(lose_aac, self._device_address_announced == ann0 + 1),
            implies(lose_aac, is_claim_frame(trace[-1], self, own, ann0 + 1)))
    # losing never leaves the CA operational (C13: it must stop sending in the same call)
    ensures("C13.lose_stops", implies(mine and own > cont, self._device_address_state != ST_NORMAL))
    ensures("C04.contest.frame", unchanged(self._device_address_preferred, self._started))


# ------------------------------------------------------------------ C14: requests

@unit("j1939.controller_application:ControllerApplication._process_request", props=["C14", "C13"])
def _(self: "ControllerApplication", mid: "MessageId", dest_address: "int", data: "octets", timestamp: "real"):
    requires(inv_ca(self), not is_none(self._ecu), len(data) >= 3, octets(data), 0 <= dest_address <= 255,
             0 <= mid.source_address <= 255)
    opaque("ElectronicControlUnit.send_message")
    bycontract("Name.bytes.getter")
    let("n0", len(trace))
    let("pgn", le3(data[0], data[1], data[2]))
    let("addressed", self._device_address_state == ST_NORMAL and (dest_address == self._device_address or dest_address == ADDR_GLOBAL))
    invariant(1, len(trace) == n0 + _i1, _i1 <= len(self._subscribers_request),
              forall(lambda j: trace[n0 + j].fn == self._subscribers_request[j] and trace[n0 + j].n == 3
                     and trace[n0 + j].a0 == mid.source_address and trace[n0 + j].a1 == dest_address
                     and trace[n0 + j].a2 == pgn, 0, _i1),
              unchanged(self._device_address_state, self._device_address, self._device_address_announced),
              len(self._subscribers_request) == old(len(self._subscribers_request)),
              forall(lambda j: self._subscribers_request[j] == old(self._subscribers_request[j]), 0, len(self._subscribers_request)))
    ensures("C14.silent", implies(not addressed, len(trace) == n0))
    ensures("C14.claim_answer", implies(addressed and pgn == PGN_ADDRESSCLAIM,
            len(trace) == n0 + 1 and is_claim_frame(trace[-1], self, name_value(self._name), self._device_address)))
    # every registered request callback exactly once, in order, with (requester, destination, requested PGN)
    ensures("C14.filter", implies(addressed and pgn != PGN_ADDRESSCLAIM,
            len(trace) == n0 + len(self._subscribers_request)
            and forall(lambda j: trace[n0 + j].fn == self._subscribers_request[j] and trace[n0 + j].n == 3
                       and trace[n0 + j].a0 == mid.source_address and trace[n0 + j].a1 == dest_address
                       and trace[n0 + j].a2 == pgn, 0, len(self._subscribers_request))))
    ensures("C14.frame", unchanged(self._device_address_state, self._device_address, self._device_address_announced))


# ------------------------------------------------------------------ start / stop (claim timer registration)

@unit("j1939.controller_application:ControllerApplication.start", props=["C04", "C12"])
def _(self: "ControllerApplication", claim_delay: "real"):
    opaque("ElectronicControlUnit.add_timer")
    let("n0", len(trace))
    ensures("C04.start", ite(not is_none(self._ecu) and not old(self._started),
                             self._started == True and len(trace) == n0 + 1
                             and trace[-1].fn == fn("ElectronicControlUnit.add_timer") and trace[-1].a1 == claim_delay
                             and trace[-1].a2 == method(self, "_process_claim_async"),
                             len(trace) == n0 and unchanged(self._started)))


@unit("j1939.controller_application:ControllerApplication.stop", props=["C04", "C12"])
def _(self: "ControllerApplication"):
    opaque("ElectronicControlUnit.remove_timer")
    let("n0", len(trace))
    ensures("C04.stop", ite(not is_none(self._ecu) and old(self._started),
                            self._started == False and len(trace) == n0 + 1
                            and trace[-1].fn == fn("ElectronicControlUnit.remove_timer")
                            and trace[-1].a1 == method(self, "_process_claim_async"),
                            len(trace) == n0 and unchanged(self._started)))
