# C15 - identifier, PGN and NAME codecs against the independent layout specs (specs/layouts.py).
# bv mode: Python ints are signed W-bit vectors with no-overflow side obligations, which is
# exact for & | ^ >> << on (possibly negative) Python ints.

# ------------------------------------------------------------------ MessageId


@unit("j1939.message_id:MessageId.__init__", variant="fields", arith="bv", replay="native", width=48, props=["C15", "C03", "C13"])
def _(self: "MessageId", **kwargs):
    kwargs(priority="int", parameter_group_number="int", source_address="int")
    requires(-2**40 <= kwargs['priority'] < 2**40, -2**40 <= kwargs['parameter_group_number'] < 2**40,
             -2**40 <= kwargs['source_address'] < 2**40)
    ensures("C15.mid.init_fields",
            self.priority == bits(kwargs['priority'], 0, 3),
            self.parameter_group_number == bits(kwargs['parameter_group_number'], 0, 18),
            self.source_address == bits(kwargs['source_address'], 0, 8))
    ensures("C15.mid.compose", self.can_id == can_id_of(kwargs['priority'], kwargs['parameter_group_number'], kwargs['source_address']))


@unit("j1939.message_id:MessageId.__init__", variant="defaults", arith="bv", replay="native", width=48, props=["C15"])
def _(self: "MessageId", **kwargs):
    kwargs()
    ensures("C15.mid.init_defaults", self.priority == 0, self.parameter_group_number == 0, self.source_address == 0)


@unit("j1939.message_id:MessageId.__init__", variant="can_id", arith="bv", replay="native", width=48, props=["C15", "C03", "C05"])
def _(self: "MessageId", **kwargs):
    kwargs(can_id="int")
    requires(0 <= kwargs['can_id'] < 2**32)
    ensures("C15.mid.parse",
            self.priority == id_priority(kwargs['can_id']),
            self.parameter_group_number == id_pgn(kwargs['can_id']),
            self.source_address == id_sa(kwargs['can_id']))
    # parse then compose gives the identifier back (29-bit identifiers)
    ensures("C15.mid.rt_id", implies(kwargs['can_id'] < 2**29, self.can_id == kwargs['can_id']))


@unit("j1939.message_id:MessageId.can_id.getter", arith="bv", replay="native", width=48, props=["C15", "C03"])
def _(self: "MessageId"):
    requires(0 <= self.priority < 8, 0 <= self.parameter_group_number < 2**18, 0 <= self.source_address < 256)
    ensures("C15.mid.compose_getter", result == can_id_of(self.priority, self.parameter_group_number, self.source_address))
    ensures("C15.mid.id_29bit", 0 <= result < 2**29)
    # compose then parse gives the fields back
    ensures("C15.mid.rt_fields", id_priority(result) == self.priority, id_pgn(result) == self.parameter_group_number,
            id_sa(result) == self.source_address)


@unit("j1939.message_id:MessageId.can_id.setter", arith="bv", replay="native", width=48, props=["C15", "C03"])
def _(self: "MessageId", can_id: "int"):
    requires(0 <= can_id < 2**32)
    ensures("C15.mid.parse_setter",
            self.priority == id_priority(can_id), self.parameter_group_number == id_pgn(can_id),
            self.source_address == id_sa(can_id))


# ------------------------------------------------------------------ ParameterGroupNumber

@unit("j1939.parameter_group_number:ParameterGroupNumber.__init__", arith="bv", replay="native", width=48, props=["C15", "C03"])
def _(self: "ParameterGroupNumber", data_page: "int", pdu_format: "int", pdu_specific: "int"):
    requires(-2**40 <= data_page < 2**40, -2**40 <= pdu_format < 2**40, -2**40 <= pdu_specific < 2**40)
    ensures("C15.pgn.init", self.data_page == bits(data_page, 0, 1), self.pdu_format == bits(pdu_format, 0, 8),
            self.pdu_specific == bits(pdu_specific, 0, 8))
    ensures("C15.pgn.value", self.value == pgn_value_of(data_page, pdu_format, pdu_specific))


@unit("j1939.parameter_group_number:ParameterGroupNumber.value.getter", arith="bv", replay="native", width=48, props=["C15", "C03"])
def _(self: "ParameterGroupNumber"):
    requires(0 <= self.data_page < 2, 0 <= self.pdu_format < 256, 0 <= self.pdu_specific < 256)
    ensures("C15.pgn.value_getter", result == pgn_value_of(self.data_page, self.pdu_format, self.pdu_specific))
    ensures("C15.pgn.fields_of_value", bits(result, 16, 1) == self.data_page, bits(result, 8, 8) == self.pdu_format,
            bits(result, 0, 8) == self.pdu_specific, 0 <= result < 2**17)


@unit("j1939.parameter_group_number:ParameterGroupNumber.is_pdu1_format.getter", arith="bv", replay="native", width=48, props=["C15", "C05"])
def _(self: "ParameterGroupNumber"):
    requires(0 <= self.data_page < 2, 0 <= self.pdu_format < 256, 0 <= self.pdu_specific < 256)
    ensures("C15.pgn.classes.pdu1", result == pgn_is_pdu1(self.value))
    ensures("C15.pgn.classes.xor", result != self.is_pdu2_format)


@unit("j1939.parameter_group_number:ParameterGroupNumber.is_pdu2_format.getter", arith="bv", replay="native", width=48, props=["C15", "C05"])
def _(self: "ParameterGroupNumber"):
    requires(0 <= self.data_page < 2, 0 <= self.pdu_format < 256, 0 <= self.pdu_specific < 256)
    ensures("C15.pgn.classes.pdu2", result == (not pgn_is_pdu1(self.value)))


@unit("j1939.parameter_group_number:ParameterGroupNumber.from_message_id", arith="bv", replay="native", width=48, props=["C15", "C03", "C05"])
def _(self: "ParameterGroupNumber", mid: "MessageId"):
    requires(0 <= mid.priority < 8, 0 <= mid.parameter_group_number < 2**18, 0 <= mid.source_address < 256)
    ensures("C15.pgn.from_mid", self.data_page == bits(mid.parameter_group_number, 16, 1),
            self.pdu_format == bits(mid.parameter_group_number, 8, 8),
            self.pdu_specific == bits(mid.parameter_group_number, 0, 8))
    # the PGN of an identifier is bits 8..24 of the identifier (modulo the EDP bit 25)
    ensures("C15.pgn.of_id", self.value == bits(mid.can_id, 8, 17))
    ensures("C15.pgn.of_id_pdu1", self.is_pdu1_format == (bits(mid.can_id, 16, 8) < 240))


# ------------------------------------------------------------------ Name

@unit("j1939.name:Name.__init__", variant="fields", arith="bv", replay="native", width=80, props=["C15", "C04"])
def _(self: "Name", **kwargs):
    kwargs(arbitrary_address_capable="int", industry_group="int", vehicle_system_instance="int", vehicle_system="int",
           function="int", function_instance="int", ecu_instance="int", manufacturer_code="int", identity_number="int")
    requires(-2**40 <= kwargs['arbitrary_address_capable'] < 2**40, -2**40 <= kwargs['industry_group'] < 2**40,
             -2**40 <= kwargs['vehicle_system_instance'] < 2**40, -2**40 <= kwargs['vehicle_system'] < 2**40,
             -2**40 <= kwargs['function'] < 2**40, -2**40 <= kwargs['function_instance'] < 2**40,
             -2**40 <= kwargs['ecu_instance'] < 2**40, -2**40 <= kwargs['manufacturer_code'] < 2**40,
             -2**40 <= kwargs['identity_number'] < 2**40)
    let("inrange", name_in_range(kwargs['arbitrary_address_capable'], kwargs['industry_group'], kwargs['vehicle_system_instance'],
                                 kwargs['vehicle_system'], kwargs['function'], kwargs['function_instance'], kwargs['ecu_instance'],
                                 kwargs['manufacturer_code'], kwargs['identity_number']))
    raises("ValueError", when=not inrange, label="C15.name.ctor_range")
    ensures("C15.name.ctor_fields",
            self.arbitrary_address_capable == kwargs['arbitrary_address_capable'], self.industry_group == kwargs['industry_group'],
            self.vehicle_system_instance == kwargs['vehicle_system_instance'], self.vehicle_system == kwargs['vehicle_system'],
            self.function == kwargs['function'], self.function_instance == kwargs['function_instance'],
            self.ecu_instance == kwargs['ecu_instance'], self.manufacturer_code == kwargs['manufacturer_code'],
            self.identity_number == kwargs['identity_number'])
    ensures("C15.name.reserved0", self.reserved_bit == 0)
    ensures("C15.name.compose",
            self.value == name_value_of(kwargs['arbitrary_address_capable'], kwargs['industry_group'], kwargs['vehicle_system_instance'],
                                        kwargs['vehicle_system'], 0, kwargs['function'], kwargs['function_instance'],
                                        kwargs['ecu_instance'], kwargs['manufacturer_code'], kwargs['identity_number']))
    ensures("C15.name.value_64bit", 0 <= self.value < 2**64)


@unit("j1939.name:Name.__init__", variant="defaults", arith="bv", replay="native", width=80, props=["C15"])
def _(self: "Name", **kwargs):
    kwargs()
    ensures("C15.name.ctor_defaults", self.value == 0, self.reserved_bit == 0)


@unit("j1939.name:Name.__init__", variant="value", arith="bv", replay="native", width=80, props=["C15", "C04"])
def _(self: "Name", **kwargs):
    kwargs(value="int")
    requires(0 <= kwargs['value'] < 2**72)
    ensures("C15.name.parse",
            self.identity_number == bits(kwargs['value'], 0, 21), self.manufacturer_code == bits(kwargs['value'], 21, 11),
            self.ecu_instance == bits(kwargs['value'], 32, 3), self.function_instance == bits(kwargs['value'], 35, 5),
            self.function == bits(kwargs['value'], 40, 8), self.vehicle_system == bits(kwargs['value'], 49, 7),
            self.vehicle_system_instance == bits(kwargs['value'], 56, 4), self.industry_group == bits(kwargs['value'], 60, 3),
            self.arbitrary_address_capable == bits(kwargs['value'], 63, 1))
    ensures("C15.name.reserved0", self.reserved_bit == 0)
    # value -> Name -> value: the 64-bit value with the reserved bit 48 cleared
    ensures("C15.name.rt_value", self.value == bits(kwargs['value'], 0, 48) + bits(kwargs['value'], 49, 15) * 2**49)


@unit("j1939.name:Name.__init__", variant="bytes", arith="bv", replay="native", width=80, props=["C15", "C04"])
def _(self: "Name", **kwargs):
    kwargs(bytes="octets")
    requires(len(kwargs['bytes']) == 8, octets(kwargs['bytes']))
    let("v", le8(kwargs['bytes'][0], kwargs['bytes'][1], kwargs['bytes'][2], kwargs['bytes'][3],
                 kwargs['bytes'][4], kwargs['bytes'][5], kwargs['bytes'][6], kwargs['bytes'][7]))
    ensures("C15.name.from_bytes",
            self.identity_number == bits(v, 0, 21), self.manufacturer_code == bits(v, 21, 11),
            self.ecu_instance == bits(v, 32, 3), self.function_instance == bits(v, 35, 5),
            self.function == bits(v, 40, 8), self.vehicle_system == bits(v, 49, 7),
            self.vehicle_system_instance == bits(v, 56, 4), self.industry_group == bits(v, 60, 3),
            self.arbitrary_address_capable == bits(v, 63, 1))
    ensures("C15.name.reserved0", self.reserved_bit == 0)
    ensures("C15.name.rt_bytes_value", self.value == bits(v, 0, 48) + bits(v, 49, 15) * 2**49)
    # bytes -> Name -> bytes: identical except bit 0 of octet 6 (the reserved bit) reads 0
    ensures("C15.name.rt_bytes",
            len(self.bytes) == 8,
            forall(lambda i: implies(i != 6, self.bytes[i] == kwargs['bytes'][i]), 0, 8),
            self.bytes[6] == kwargs['bytes'][6] - bits(kwargs['bytes'][6], 0, 1), export=False)


@unit("j1939.name:Name.value.getter", arith="bv", replay="native", width=80, props=["C15", "C04"])
def _(self: "Name"):
    requires(name_in_range(self.arbitrary_address_capable, self.industry_group, self.vehicle_system_instance, self.vehicle_system,
                           self.function, self.function_instance, self.ecu_instance, self.manufacturer_code, self.identity_number),
             0 <= self.reserved_bit < 2)
    ensures("C15.name.value_getter",
            result == name_value_of(self.arbitrary_address_capable, self.industry_group, self.vehicle_system_instance,
                                    self.vehicle_system, self.reserved_bit, self.function, self.function_instance,
                                    self.ecu_instance, self.manufacturer_code, self.identity_number))
    # every field sits at the bit position J1939-81 assigns (value -> fields)
    ensures("C15.name.rt_fields",
            bits(result, 0, 21) == self.identity_number, bits(result, 21, 11) == self.manufacturer_code,
            bits(result, 32, 3) == self.ecu_instance, bits(result, 35, 5) == self.function_instance,
            bits(result, 40, 8) == self.function, bits(result, 48, 1) == self.reserved_bit,
            bits(result, 49, 7) == self.vehicle_system, bits(result, 56, 4) == self.vehicle_system_instance,
            bits(result, 60, 3) == self.industry_group, bits(result, 63, 1) == self.arbitrary_address_capable,
            0 <= result < 2**64)


@unit("j1939.name:Name.value.setter", arith="bv", replay="native", width=80, props=["C15", "C04"])
def _(self: "Name", value: "int"):
    requires(0 <= value < 2**72)
    ensures("C15.name.parse_setter",
            self.identity_number == bits(value, 0, 21), self.manufacturer_code == bits(value, 21, 11),
            self.ecu_instance == bits(value, 32, 3), self.function_instance == bits(value, 35, 5),
            self.function == bits(value, 40, 8), self.reserved_bit == bits(value, 48, 1),
            self.vehicle_system == bits(value, 49, 7),
            self.vehicle_system_instance == bits(value, 56, 4), self.industry_group == bits(value, 60, 3),
            self.arbitrary_address_capable == bits(value, 63, 1))


@unit("j1939.name:Name.bytes.getter", arith="bv", replay="native", width=80, props=["C15", "C04", "C13"])
def _(self: "Name"):
    requires(name_in_range(self.arbitrary_address_capable, self.industry_group, self.vehicle_system_instance, self.vehicle_system,
                           self.function, self.function_instance, self.ecu_instance, self.manufacturer_code, self.identity_number),
             0 <= self.reserved_bit < 2)
    returns("octets")
    ensures("C15.name.bytes_le", len(result) == 8, forall(lambda i: result[i] == le_octet(self.value, i), 0, 8),
            le8(result[0], result[1], result[2], result[3], result[4], result[5], result[6], result[7]) == self.value)


@unit("j1939.name:Name.bytes.setter", arith="bv", replay="native", width=80, props=["C15", "C04"])
def _(self: "Name", value: "octets"):
    requires(len(value) == 8, octets(value))
    let("v", le8(value[0], value[1], value[2], value[3], value[4], value[5], value[6], value[7]))
    ensures("C15.name.from_bytes_setter",
            self.identity_number == bits(v, 0, 21), self.manufacturer_code == bits(v, 21, 11),
            self.ecu_instance == bits(v, 32, 3), self.function_instance == bits(v, 35, 5),
            self.function == bits(v, 40, 8), self.reserved_bit == bits(v, 48, 1), self.vehicle_system == bits(v, 49, 7),
            self.vehicle_system_instance == bits(v, 56, 4), self.industry_group == bits(v, 60, 3),
            self.arbitrary_address_capable == bits(v, 63, 1))
