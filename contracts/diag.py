# Diagnostic messages: DTC / lamp codecs, DM1 build and parse, start/stop, DM22 request (C16)

# ------------------------------------------------------------------ DTC (bit-vector arithmetic)

@unit("j1939.diagnostic_messages:DTC.__init__", variant="fields", arith="bv", replay="native", width=48, props=["C16"])
def _(self: "DTC", dtc: "none", spn: "int", fmi: "int", oc: "int"):
    requires(0 <= spn < 2**19, 0 <= fmi < 32, 0 <= oc < 128)
    ensures("C16.dtc.pack", self._dtc == dtc_pack(spn, fmi, oc), 0 <= self._dtc < 2**31,
            self._spn == spn, self._fmi == fmi, self._oc == oc, self._cm == 0)
    # unpack(pack(x)) == x
    ensures("C16.dtc.rt", dtc_spn(self._dtc) == spn, dtc_fmi(self._dtc) == fmi, dtc_oc(self._dtc) == oc, dtc_cm(self._dtc) == 0)
    # the four octets on the wire (little endian)
    ensures("C16.dtc.octets", forall(lambda b: le_octet(self._dtc, b) == dtc_octet(spn, fmi, oc, b), 0, 4))


@unit("j1939.diagnostic_messages:DTC.__init__", variant="value", arith="bv", replay="native", width=48, props=["C16"])
def _(self: "DTC", dtc: "int", spn: "none", fmi: "none", oc: "int"):
    requires(0 <= dtc < 2**32)
    ensures("C16.dtc.unpack", self._dtc == dtc, self._spn == dtc_spn(dtc), self._fmi == dtc_fmi(dtc), self._oc == dtc_oc(dtc),
            self._cm == dtc_cm(dtc))
    ensures("C16.dtc.unpack_range", 0 <= self._spn < 2**19, 0 <= self._fmi < 32, 0 <= self._oc < 128)
    # pack(unpack(d)) == d for codes with the conversion bit clear
    ensures("C16.dtc.rt2", implies(dtc < 2**31, dtc_pack(self._spn, self._fmi, self._oc) == dtc))


# ------------------------------------------------------------------ lamps

@unit("j1939.diagnostic_messages:DtcLamp.get_status", props=["C16"])
def _(self: "DtcLamp", lamp: "int", flash: "int"):
    requires(0 <= lamp <= 3, 0 <= flash <= 3)
    returns("int")
    ensures("C16.lamp.decode", result == lamp_decode(lamp, flash))


@unit("j1939.diagnostic_messages:DtcLamp.get_data", props=["C16"])
def _(self: "DtcLamp", status_dic: "LampStatus"):
    let("pl", lamp_norm(has_key(status_dic, 'pl'), status_dic['pl']))
    let("awl", lamp_norm(has_key(status_dic, 'awl'), status_dic['awl']))
    let("rsl", lamp_norm(has_key(status_dic, 'rsl'), status_dic['rsl']))
    let("mil", lamp_norm(has_key(status_dic, 'mil'), status_dic['mil']))
    returns("octets")
    modifies(keys(status_dic, 'pl', 'awl', 'rsl', 'mil'))
    ensures("C16.lamp.encode", len(result) == 2,
            result[0] == lamp_bits(pl) + lamp_bits(awl) * 4 + lamp_bits(rsl) * 16 + lamp_bits(mil) * 64,
            result[1] == flash_bits(pl) + flash_bits(awl) * 4 + flash_bits(rsl) * 16 + flash_bits(mil) * 64)
    # decode(encode(s)) == s for every one of the 5^4 combinations
    ensures("C16.lamp.rt",
            lamp_decode(bits(result[0], 0, 2), bits(result[1], 0, 2)) == pl,
            lamp_decode(bits(result[0], 2, 2), bits(result[1], 2, 2)) == awl,
            lamp_decode(bits(result[0], 4, 2), bits(result[1], 4, 2)) == rsl,
            lamp_decode(bits(result[0], 6, 2), bits(result[1], 6, 2)) == mil)


# ------------------------------------------------------------------ DM1 build

def dtc_entry_ok(d):
    return (has_keys(d, 'spn', 'fmi') and 0 <= d['spn'] and d['spn'] < 2 ** 19 and 0 <= d['fmi'] and d['fmi'] < 32
            and implies(has_key(d, 'oc'), 0 <= d['oc'] and d['oc'] < 128))


def dtc_oc_of(d):
    return ite(has_key(d, 'oc'), d['oc'], 0)


@unit("j1939.diagnostic_messages:Dm1._send", props=["C16"])
def _(self: "Dm1", cookie: "Dm1Cookie"):
    requires(has_key(cookie, 'cb'), self._pgn == PGN_DM01)
    opaque("ControllerApplication.send_pgn")
    # the codecs are verified in bit-vector arithmetic as units of their own; here only their contracts are used
    bycontract("DtcLamp.get_data", "DTC.__init__")
    let("n0", len(trace))
    # loop 1: payload built so far
    invariant(1, _i1 <= len(self._dtc_dic_list), len(trace) == n0 + 1, len(self._data) == 2 + 4 * _i1,
              self._data[0] == at_entry(self._data[0]), self._data[1] == at_entry(self._data[1]),
              forall(lambda j: dtc_entry_ok(self._dtc_dic_list[j]), 0, len(self._dtc_dic_list)),
              forall(lambda j: forall(lambda b: self._data[2 + 4 * j + b]
                                      == dtc_octet(self._dtc_dic_list[j]['spn'], self._dtc_dic_list[j]['fmi'],
                                                   dtc_oc_of(self._dtc_dic_list[j]), b), 0, 4), 0, _i1))
    callout_assume("the DM1 callback returns (lamp dictionary, list of well-formed trouble code dictionaries: spn < 2^19, fmi < 32, oc < 128 if present)",
                   forall(lambda j: dtc_entry_ok(ret[1][j]), 0, len(ret[1])), on=cookie['cb'])
    # the user callback is the first thing called (before anything is sent)
    callout_check("C16.dm1.cb_first", implies(ev.fn == cookie['cb'], len(trace) == n0 + 1))
    ensures("C16.dm1.build", result == True, len(trace) == n0 + 2,
            trace[n0].fn == cookie['cb'] and trace[n0].n == 0,
            trace[n0 + 1].fn == fn("ControllerApplication.send_pgn") and trace[n0 + 1].o0 == self._ca
            and trace[n0 + 1].i1 == 0 and trace[n0 + 1].i2 == 0xFE and trace[n0 + 1].i3 == 0xCA,
            # transport priority 7 as soon as the payload needs the transport protocol
            trace[n0 + 1].i4 == ite(2 + 4 * len(self._dtc_dic_list) > 8, 7, 6),
            len(trace[n0 + 1].l5) == 2 + 4 * len(self._dtc_dic_list),
            forall(lambda j: forall(lambda b: trace[n0 + 1].l5[2 + 4 * j + b]
                                    == dtc_octet(self._dtc_dic_list[j]['spn'], self._dtc_dic_list[j]['fmi'],
                                                 dtc_oc_of(self._dtc_dic_list[j]), b), 0, 4), 0, len(self._dtc_dic_list)))


# ------------------------------------------------------------------ DM1 parse / dispatch

@unit("j1939.diagnostic_messages:Dm1._parse_dm1_receive_data", props=["C16"])
def _(self: "Dm1"):
    requires(octets(self._data), len(self._data) <= 1785)
    bycontract("DtcLamp.get_status", "DTC.__init__")
    let("n", len(self._data))
    let("valid", n >= 6 and (n == 8 or (n - 2) % 4 == 0))
    let("ndtc", (n - 2) // 4)
    invariant(1, _i1 <= ndtc, len(self._dtc_dic_list) == _i1, octets(self._data), len(self._data) == n,
              forall(lambda i: self._data[i] == old(self._data[i]), 0, n),
              forall(lambda j: has_keys(self._dtc_dic_list[j], 'spn', 'fmi', 'oc')
                     and self._dtc_dic_list[j]['spn'] == dtc_spn(le4(self._data[2 + 4 * j], self._data[3 + 4 * j], self._data[4 + 4 * j], self._data[5 + 4 * j]))
                     and self._dtc_dic_list[j]['fmi'] == dtc_fmi(le4(self._data[2 + 4 * j], self._data[3 + 4 * j], self._data[4 + 4 * j], self._data[5 + 4 * j]))
                     and self._dtc_dic_list[j]['oc'] == dtc_oc(le4(self._data[2 + 4 * j], self._data[3 + 4 * j], self._data[4 + 4 * j], self._data[5 + 4 * j])),
                     0, _i1),
              has_keys(self._lamp_status, 'pl', 'awl', 'rsl', 'mil'),
              self._lamp_status['pl'] == lamp_decode(bits(self._data[0], 0, 2), bits(self._data[1], 0, 2)),
              self._lamp_status['awl'] == lamp_decode(bits(self._data[0], 2, 2), bits(self._data[1], 2, 2)),
              self._lamp_status['rsl'] == lamp_decode(bits(self._data[0], 4, 2), bits(self._data[1], 4, 2)),
              self._lamp_status['mil'] == lamp_decode(bits(self._data[0], 6, 2), bits(self._data[1], 6, 2)))
    # malformed lengths: nothing is touched
    ensures("C16.dm1.parse.reject", implies(not valid, unchanged(len(self._dtc_dic_list)) and len(trace) == old(len(trace))))
    # lamps and every trouble code at the J1939-73 positions, in order
    ensures("C16.dm1.parse", implies(valid,
            has_keys(self._lamp_status, 'pl', 'awl', 'rsl', 'mil')
            and self._lamp_status['pl'] == lamp_decode(bits(self._data[0], 0, 2), bits(self._data[1], 0, 2))
            and self._lamp_status['awl'] == lamp_decode(bits(self._data[0], 2, 2), bits(self._data[1], 2, 2))
            and self._lamp_status['rsl'] == lamp_decode(bits(self._data[0], 4, 2), bits(self._data[1], 4, 2))
            and self._lamp_status['mil'] == lamp_decode(bits(self._data[0], 6, 2), bits(self._data[1], 6, 2))
            and len(self._dtc_dic_list) == ndtc
            and forall(lambda j: self._dtc_dic_list[j]['spn'] == dtc_spn(le4(self._data[2 + 4 * j], self._data[3 + 4 * j], self._data[4 + 4 * j], self._data[5 + 4 * j]))
                       and self._dtc_dic_list[j]['fmi'] == dtc_fmi(le4(self._data[2 + 4 * j], self._data[3 + 4 * j], self._data[4 + 4 * j], self._data[5 + 4 * j]))
                       and self._dtc_dic_list[j]['oc'] == dtc_oc(le4(self._data[2 + 4 * j], self._data[3 + 4 * j], self._data[4 + 4 * j], self._data[5 + 4 * j])),
                       0, ndtc)))


# build then parse gives the codes back: octets produced for (spn, fmi, oc) decode to (spn, fmi, oc)
@unit("lemma:C16.dm1.rt", arith="bv", width=48, props=["C16"])
def _(spn: "int", fmi: "int", oc: "int"):
    requires(0 <= spn < 2**19, 0 <= fmi < 32, 0 <= oc < 128)
    let("d", le4(dtc_octet(spn, fmi, oc, 0), dtc_octet(spn, fmi, oc, 1), dtc_octet(spn, fmi, oc, 2), dtc_octet(spn, fmi, oc, 3)))
    ensures("C16.dm1.rt", dtc_spn(d) == spn, dtc_fmi(d) == fmi, dtc_oc(d) == oc, d == dtc_pack(spn, fmi, oc))


@unit("j1939.diagnostic_messages:Dm1._receive", props=["C16"])
def _(self: "Dm1", priority: "int", pgn: "int", sa: "int", timestamp: "real", data: "octets"):
    opaque("Dm1._parse_dm1_receive_data", "Dm1._notify_subscribers")
    let("n0", len(trace))
    ensures("C16.dm1.dispatch", ite(pgn == self._pgn,
                                    len(trace) == n0 + 2 and self._data == data
                                    and trace[n0].fn == fn("Dm1._parse_dm1_receive_data") and trace[n0].o0 == self
                                    and trace[n0 + 1].fn == fn("Dm1._notify_subscribers") and trace[n0 + 1].o0 == self
                                    and trace[n0 + 1].i1 == sa and trace[n0 + 1].r2 == timestamp,
                                    len(trace) == n0))


# ------------------------------------------------------------------ start / stop of the cyclic transmission

@unit("j1939.diagnostic_messages:Dm1.start_send", props=["C16", "C12"])
def _(self: "Dm1", callback: "func", cycletime: "real"):
    opaque("ControllerApplication.add_timer")
    let("n0", len(trace))
    # one registration: period = cycle time, timer callback = the DM1 builder, the user callback travels in the cookie
    ensures("C16.dm1.start", len(trace) == n0 + 1,
            trace[-1].fn == fn("ControllerApplication.add_timer") and trace[-1].o0 == self._ca
            and trace[-1].r_delta_time == cycletime and trace[-1].f_callback == method(self, "_send")
            and typeis(trace[-1].o_cookie, 'Dm1Cookie')['cb'] == callback)


@unit("j1939.diagnostic_messages:Dm1.stop_send", props=["C16", "C12"])
def _(self: "Dm1", callback: "func"):
    opaque("ControllerApplication.remove_timer")
    let("n0", len(trace))
    # the registration made by start_send carries the DM1 builder as timer callback: that is what must be removed
    ensures("C16.dm1.stop", len(trace) == n0 + 1,
            trace[-1].fn == fn("ControllerApplication.remove_timer") and trace[-1].o0 == self._ca
            and trace[-1].f1 == method(self, "_send"))


# ------------------------------------------------------------------ DM22 individual clear request

@unit("j1939.diagnostic_messages:Dm22._send_request", props=["C16"])
def _(self: "Dm22", control_byte: "int", dest_address: "int", fmi: "int", spn: "int"):
    requires(0 <= spn < 2**19, 0 <= fmi < 32, self._pgn == PGN_DM22, -2**40 <= dest_address < 2**40)
    opaque("ControllerApplication.send_pgn")
    let("n0", len(trace))
    # octets 6..8: SPN bits 0..7, SPN bits 8..15, SPN bits 16..18 in the upper three bits + FMI
    ensures("C16.dm22.encode", len(trace) == n0 + 1,
            trace[-1].fn == fn("ControllerApplication.send_pgn") and trace[-1].o0 == self._ca
            and trace[-1].i1 == 0 and trace[-1].i2 == 0xC3 and trace[-1].i3 == bits(dest_address, 0, 8) and trace[-1].i4 == 6,
            trace[-1].l5 == [control_byte, 255, 255, 255, 255, dtc_octet(spn, fmi, 0, 0), dtc_octet(spn, fmi, 0, 1), dtc_octet(spn, fmi, 0, 2)])


@unit("j1939.diagnostic_messages:Dm22.request_clear_act_dtc", props=["C16"])
def _(self: "Dm22", dest_address: "int", spn: "int", fmi: "int"):
    opaque("Dm22._send_request")
    ensures("C16.dm22.act", len(trace) == old(len(trace)) + 1, trace[-1].fn == fn("Dm22._send_request"),
            trace[-1].i1 == 17 and trace[-1].i2 == dest_address and trace[-1].i3 == fmi and trace[-1].i4 == spn)


@unit("j1939.diagnostic_messages:Dm22.request_clear_pa_dtc", props=["C16"])
def _(self: "Dm22", dest_address: "int", spn: "int", fmi: "int"):
    opaque("Dm22._send_request")
    ensures("C16.dm22.pa", len(trace) == old(len(trace)) + 1, trace[-1].fn == fn("Dm22._send_request"),
            trace[-1].i1 == 1 and trace[-1].i2 == dest_address and trace[-1].i3 == fmi and trace[-1].i4 == spn)
