# J1939-22 multi-PG: frame assembly (C11.frame), unpacking (C11.unpack), collection buffers (C11.fit, in send_pgn: j22_send.py)

@unit("j1939.j1939_22:J1939_22.__send_multi_pg", props=["C11", "C03"])
def _(self: "J1939_22", frame_format: "int", cpg_list: "list(Cpg)", src_address: "int", dst_address: "int"):
    requires(lut_ok(self), cpgs_ok(cpg_list), -2**40 <= src_address < 2**40, -2**40 <= dst_address < 2**40)
    let("n0", len(trace))
    let("n", len(cpg_list))
    let("used", psum(cpg_list, len(cpg_list)))
    modifies(trace)
    # loop 1: the groups, in order
    invariant(1, _i1 <= n, len(data) == psum(cpg_list, _i1), priority == min_prio(cpg_list, _i1), octets(data),
              # (every group already placed ends inside the frame built so far)
              forall(lambda j: psum(cpg_list, j) >= 0 and psum(cpg_list, j) + 4 + cpg_list[j]['data_length'] <= len(data), 0, _i1),
              forall(lambda j: group_at(data, cpg_list, j), 0, _i1))
    # one iteration appends exactly the group's header and data behind what was there (stepping stones for loop 1)
    body_ensures(1, "C11.frame.step",
                 lemma(len(data) == at_head(len(data)) + 4 + cpg['data_length']),
                 lemma(forall(lambda k: data[k] == at_head(data)[k], 0, at_head(len(data)))),
                 lemma(data[at_head(len(data))] == cpg_header_octet(cpg['tos'], cpg['tf'], cpg['cpgn'], cpg['data_length'], 0)),
                 lemma(data[at_head(len(data)) + 1] == cpg_header_octet(cpg['tos'], cpg['tf'], cpg['cpgn'], cpg['data_length'], 1)),
                 lemma(data[at_head(len(data)) + 2] == cpg_header_octet(cpg['tos'], cpg['tf'], cpg['cpgn'], cpg['data_length'], 2)),
                 lemma(data[at_head(len(data)) + 3] == cpg['data_length']),
                 lemma(forall(lambda t: data[at_head(len(data)) + 4 + t] == cpg['data'][t], 0, cpg['data_length'])))
    # loop 2: padding up to the next legal CAN FD length
    invariant(2, next_valid_fd_length == fd_len(used), used <= len(data), len(data) <= next_valid_fd_length, octets(data),
              padding_cnt == mn(3, len(data) - used),
              forall(lambda j: psum(cpg_list, j) >= 0 and psum(cpg_list, j) + 4 + cpg_list[j]['data_length'] <= used, 0, n),
              forall(lambda j: group_at(data, cpg_list, j), 0, n),
              forall(lambda i: pad_at(data, used, i), used, len(data)))
    # exactly one frame
    ensures("C11.frame.one", len(trace) == n0 + 1, trace[-1].fn == self.__send_message, trace[-1].n == 3, trace[-1].b_fd_format == True)
    # legal CAN FD length, at most 64 octets
    ensures("C11.frame.len", len(trace[-1].l2) == fd_len(used), len(trace[-1].l2) <= 64, octets(trace[-1].l2))
    # every group with its own header and byte-identical data, in submission order, back to back
    ensures("C11.frame.groups", forall(lambda j: group_at(trace[-1].l2, cpg_list, j), 0, n))
    # padding a decoder skips: TOS 0 service header first (so the unpacking loop stops there), then 0xAA
    ensures("C11.frame.pad", forall(lambda i: pad_at(trace[-1].l2, used, i), used, len(trace[-1].l2)))
    # identifier: extended frame 0x2500|DA from SA with the most urgent priority of the contained groups (FEFF);
    # base frame format: 11-bit identifier = source address
    ensures("C11.frame.id", ite(frame_format == FBFF,
                                trace[-1].i0 == src_address and trace[-1].b1 == False,
                                trace[-1].i0 == fd_mpg_id(min_prio(cpg_list, n), dst_address, src_address) and trace[-1].b1 == True))


# ---------------------------------------------------------------- unpacking
def is_group_delivery(ev, notify, prio, src, dest, timestamp, cpgn, n, frame, off):
    # one call notify_subscribers(priority, cpgn, src, dest, timestamp, data) with the n octets found at frame[off:off+n]
    return (ev.fn == notify and ev.n == 6 and ev.i0 == prio and ev.i1 == cpgn and ev.i2 == src and ev.i3 == dest
            and ev.r4 == timestamp and len(ev.l5) == n and forall(lambda t: ev.l5[t] == frame[off + t], 0, n))


def cpgn_of(b0, b1, b2):
    return bits(b0, 0, 2) * 65536 + b1 * 256 + b2


# one step of the unpacking loop on arbitrary octets: stop at a short rest or a TOS 0 (padding) header; otherwise exactly
# the group described by the header is delivered (TOS 2 / TF 0) or skipped (other services), and the loop continues
# right behind its data
@unit("j1939.j1939_22:J1939_22._process_multi_pg", props=["C11", "C07"])
def _(self: "J1939_22", mid: "MessageId", dest_address: "int", data: "octets", timestamp: "real"):
    requires(octets(data), 0 <= mid.priority <= 7, 0 <= mid.source_address <= 255)
    let("notify", self.__notify_subscribers)
    modifies(trace)
    invariant(1, octets(data), src_address == mid.source_address)
    body_ensures(1, "C11.unpack.step",
                 implies(at_head(len(data)) <= 4 or bits(at_head(data[0]), 5, 3) == 0, len(trace) == at_head(len(trace))),
                 implies(at_head(len(data)) > 4 and bits(at_head(data[0]), 5, 3) != 0,
                         len(data) == ite(at_head(len(data)) - 4 - at_head(data[3]) > 0, at_head(len(data)) - 4 - at_head(data[3]), 0)
                         and forall(lambda i: data[i] == at_head(data)[4 + at_head(data[3]) + i], 0, len(data))),
                 implies(at_head(len(data)) > 4 and bits(at_head(data[0]), 5, 3) == 2 and bits(at_head(data[0]), 2, 3) == 0,
                         len(trace) == at_head(len(trace)) + 1
                         and is_group_delivery(trace[-1], notify, mid.priority, mid.source_address, dest_address, timestamp,
                                               cpgn_of(at_head(data[0]), at_head(data[1]), at_head(data[2])),
                                               mn(at_head(data[3]), at_head(len(data)) - 4), at_head(data), 4)),
                 implies(at_head(len(data)) > 4 and bits(at_head(data[0]), 5, 3) != 0
                         and not (bits(at_head(data[0]), 5, 3) == 2 and bits(at_head(data[0]), 2, 3) == 0),
                         len(trace) == at_head(len(trace))))


# round trip with the frame builder: a frame laid out as __send_multi_pg builds it (groups back to back, padding that
# starts with a TOS 0 header) is unpacked into exactly its groups, once each, in order, byte-identical.
# Ghost parameters: the groups cs and their running offsets off (off[j] == psum(cs, j): lemma C11.rt.offsets below).
@unit("j1939.j1939_22:J1939_22._process_multi_pg", variant="rt", props=["C11"])
def _(self: "J1939_22", mid: "MessageId", dest_address: "int", data: "octets", timestamp: "real"):
    ghost_param("cs", "list(Cpg)")
    ghost_param("off", "list(int)")
    requires(octets(data), 0 <= mid.priority <= 7, 0 <= mid.source_address <= 255, cpgs_ok(cs), offsets_ok(off, cs),
             forall(lambda j: cs[j]['tos'] == 2 and cs[j]['tf'] == 0 and cs[j]['data_length'] >= 1, 0, len(cs)),
             off[len(cs)] <= len(data), len(data) <= 64,
             forall(lambda j: group_at_off(data, cs, j, off[j]), 0, len(cs)),
             forall(lambda i: pad_at(data, off[len(cs)], i), off[len(cs)], len(data)))
    let("notify", self.__notify_subscribers)
    let("n0", len(trace))
    let("frame", old(data))
    let("flen", old(len(data)))
    modifies(trace)
    invariant(1, octets(data), src_address == mid.source_address,
              lemma(n0 <= len(trace) and len(trace) - n0 <= len(cs)),
              # the rest of the frame still to be unpacked: everything behind the groups delivered so far
              lemma(len(data) == flen - off[len(trace) - n0]),
              lemma(forall(lambda i: data[i] == frame[off[len(trace) - n0] + i], 0, len(data))),
              # (stepping stones for the prover: what the rest of the frame starts with)
              lemma(implies(len(trace) - n0 < len(cs),
                            data[0] == cpg_header_octet(2, 0, cs[len(trace) - n0]['cpgn'], 0, 0)
                            and data[1] == cpg_header_octet(2, 0, cs[len(trace) - n0]['cpgn'], 0, 1)
                            and data[2] == cpg_header_octet(2, 0, cs[len(trace) - n0]['cpgn'], 0, 2)
                            and data[3] == cs[len(trace) - n0]['data_length']
                            and len(data) >= 4 + cs[len(trace) - n0]['data_length'])),
              lemma(implies(len(trace) - n0 < len(cs),
                            forall(lambda t: data[4 + t] == cs[len(trace) - n0]['data'][t], 0, cs[len(trace) - n0]['data_length']))),
              lemma(implies(len(trace) - n0 == len(cs) and len(data) > 0, data[0] == 0)),
              # the groups delivered so far (the delivery predicate, conjunct by conjunct)
              forall(lambda j: trace[n0 + j].fn == notify and trace[n0 + j].n == 6 and trace[n0 + j].i0 == mid.priority
                     and trace[n0 + j].i2 == mid.source_address and trace[n0 + j].i3 == dest_address
                     and trace[n0 + j].r4 == timestamp, 0, len(trace) - n0),
              forall(lambda j: trace[n0 + j].i1 == cs[j]['cpgn'], 0, len(trace) - n0),
              forall(lambda j: len(trace[n0 + j].l5) == cs[j]['data_length'], 0, len(trace) - n0),
              forall(lambda j: forall(lambda t: trace[n0 + j].l5[t] == cs[j]['data'][t], 0, cs[j]['data_length']), 0, len(trace) - n0))
    # one iteration: the header octets at the head of the rest decode to the group's own CPGN (stepping stones, then the fact)
    body_ensures(1, "C11.rt.step",
                 lemma(implies(len(trace) > at_head(len(trace)), at_head(len(trace)) - n0 < len(cs) and len(trace) == at_head(len(trace)) + 1)),
                 lemma(implies(len(trace) > at_head(len(trace)),
                               0 <= cs[at_head(len(trace)) - n0]['cpgn'] and cs[at_head(len(trace)) - n0]['cpgn'] < 2 ** 18)),
                 lemma(implies(len(trace) > at_head(len(trace)), at_head(data[0]) == 64 + bits(cs[at_head(len(trace)) - n0]['cpgn'], 16, 2))),
                 lemma(implies(len(trace) > at_head(len(trace)), at_head(data[1]) == bits(cs[at_head(len(trace)) - n0]['cpgn'], 8, 8))),
                 lemma(implies(len(trace) > at_head(len(trace)), at_head(data[2]) == bits(cs[at_head(len(trace)) - n0]['cpgn'], 0, 8))),
                 lemma(implies(len(trace) > at_head(len(trace)), trace[-1].i1 == cs[at_head(len(trace)) - n0]['cpgn'])))
    ensures("C11.rt", len(trace) == n0 + len(cs),
            forall(lambda j: is_group_delivery(trace[n0 + j], notify, mid.priority, mid.source_address, dest_address, timestamp,
                                               cs[j]['cpgn'], cs[j]['data_length'], cs[j]['data'], 0), 0, len(cs)))


# the running offsets are the closed-form sums used by the frame builder's contract (at most 16 groups per frame)
@unit("lemma:C11.rt.offsets", props=["C11"])
def _(cs: "list(Cpg)", off: "list(int)"):
    requires(cpgs_ok(cs), offsets_ok(off, cs))
    ensures("C11.rt.offsets", off[0] == psum(cs, 0), off[1] == psum(cs, 1), implies(2 <= len(cs), off[2] == psum(cs, 2)),
            implies(3 <= len(cs), off[3] == psum(cs, 3)), implies(4 <= len(cs), off[4] == psum(cs, 4)),
            implies(5 <= len(cs), off[5] == psum(cs, 5)), implies(6 <= len(cs), off[6] == psum(cs, 6)),
            implies(7 <= len(cs), off[7] == psum(cs, 7)), implies(8 <= len(cs), off[8] == psum(cs, 8)),
            implies(9 <= len(cs), off[9] == psum(cs, 9)), implies(10 <= len(cs), off[10] == psum(cs, 10)),
            implies(11 <= len(cs), off[11] == psum(cs, 11)), implies(12 <= len(cs), off[12] == psum(cs, 12)),
            implies(13 <= len(cs), off[13] == psum(cs, 13)), implies(14 <= len(cs), off[14] == psum(cs, 14)),
            implies(15 <= len(cs), off[15] == psum(cs, 15)), implies(16 <= len(cs), off[16] == psum(cs, 16)))


# ------------------------------------------------------------------ BOUNDED stand-in (never counted as proved)
# The frame builder above is verified for any number of groups through two loop invariants tied to the shape of its loops.
# This variant decides length, padding and content of the frame without invariants, by unrolling, for a frame holding ONE group
# (stated bound) of any length 0..60 - so a rewrite of the padding loop is still decided.
@unit("j1939.j1939_22:J1939_22.__send_multi_pg", variant="bounded", bounded="one contained group", props=["C11"])
def _(self: "J1939_22", frame_format: "int", cpg_list: "list(Cpg)", src_address: "int", dst_address: "int"):
    requires(lut_ok(self), cpgs_ok(cpg_list), len(cpg_list) == 1, -2**40 <= src_address < 2**40, -2**40 <= dst_address < 2**40)
    let("n0", len(trace))
    let("used", 4 + cpg_list[0]['data_length'])
    modifies(trace)
    ensures("C11.frame.one.bounded", len(trace) == n0 + 1, trace[-1].fn == self.__send_message)
    ensures("C11.frame.len.bounded", len(trace[-1].l2) == fd_len(used), len(trace[-1].l2) <= 64)
    ensures("C11.frame.groups.bounded", group_at_off(trace[-1].l2, cpg_list, 0, 0))
    ensures("C11.frame.pad.bounded", forall(lambda i: pad_at(trace[-1].l2, used, i), used, len(trace[-1].l2)))
