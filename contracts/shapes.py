# Declared shapes of the repository's objects and records (types of heap slots).
# Executed by the engine (python3-vt); never imported into the repository.
# Attribute names are the *mangled* ones for private attributes.

cls('MessageId', priority=INT, parameter_group_number=INT, source_address=INT)
cls('ParameterGroupNumber', data_page=INT, pdu_format=INT, pdu_specific=INT)
cls('Name',
    _Name__arbitrary_address_capable=INT, _Name__industry_group=INT, _Name__vehicle_system_instance=INT,
    _Name__vehicle_system=INT, _Name__reserved_bit=INT, _Name__function=INT, _Name__function_instance=INT,
    _Name__ecu_instance=INT, _Name__manufacturer_code=INT, _Name__identity_number=INT)
cls('DTC', _dtc=INT, _spn=INT, _fmi=INT, _oc=INT, _cm=INT)
cls('DtcLamp')

cls('ControllerApplication',
    _name=TRef('Name'), _device_address_preferred=TOpt(INT), _device_address_announced=INT,
    _device_address=TOpt(INT), _device_address_state=INT, _ecu=TOpt(TRef('ElectronicControlUnit')),
    _subscribers_request=TList(FUNC), _subscribers_acknowledge=TList(FUNC), _started=BOOL)

# ---- ElectronicControlUnit, listeners, timers
cls('ElectronicControlUnit',
    _bus=TOpt(TRef('Bus')), _subscribers=TList(TRef('Subscriber')), _timer_events=TList(TRef('TimerEvent')),
    j1939_dll=TRef('J1939_21'), _job_thread_wakeup_queue=TQueue(INT), _notifier=TOpt(TRef('Notifier')),
    _listeners=TList(TRef('MessageListener')))
rec('Subscriber', cb=TFunc(), dev_adr=TUnion(NONE, INT, TFunc(ret=BOOL, pure=True)))
rec('TimerEvent', delta_time=REAL, callback=TFunc(), deadline=REAL, cookie=ANY)
cls('MessageListener', ecu=TRef('ElectronicControlUnit'), stopped=BOOL)
# python-can message object (external class: only the attributes the listener reads)
cls('CanMessage', is_error_frame=BOOL, is_remote_frame=BOOL, is_extended_id=BOOL, arbitration_id=INT,
    data=OCTETS, timestamp=REAL)

# ---- J1939-21 data link layer
cls('J1939_21',
    _rcv_buffer=TTable(TRef('Rcv21')), _snd_buffer=TTable(TRef('Snd21')), _cas=TList(TRef('ControllerApplication')),
    _minimum_tp_rts_cts_dt_interval=TOpt(REAL), _minimum_tp_bam_dt_interval=REAL, _max_cmdt_packets=INT,
    _J1939_21__job_thread_wakeup=TFunc(), _J1939_21__send_message=TFunc(), _J1939_21__notify_subscribers=TFunc(),
    _J1939_21__ecu_is_message_acceptable=TFunc(BOOL, True))
rec('Snd21', pgn=INT, priority=INT, message_size=INT, num_packages=INT, data=TList(INT), state=INT, deadline=REAL,
    src_address=INT, dest_address=INT, next_packet_to_send=INT, next_wait_on_cts=INT)
rec('Rcv21', pgn=INT, message_size=INT, num_packages=INT, next_packet=INT, max_cmdt_packages=INT,
    num_packages_max_rec=INT, data=TList(INT), deadline=REAL, src_address=INT, dest_address=INT)

# ---- diagnostic messages
cls('Dm1', _pgn=INT, _lamp_status=TRef('LampStatus'), _dtc_dic_list=TList(TRef('DtcDic')), _data=OCTETS,
    _subscribers=TList(FUNC), _ca=TRef('ControllerApplication'), _msg_subscriber_added=BOOL)
rec('LampStatus', pl=INT, awl=INT, rsl=INT, mil=INT)
rec('DtcDic', spn=INT, fmi=INT, oc=INT)
rec('Dm1Cookie', cb=TFunc(TTuple(TRef('LampStatus'), TList(TRef('DtcDic')))))
cls('Dm22', _pgn=INT, _ca=TRef('ControllerApplication'))
cls('Dm11', _pgn=INT, _ca=TRef('ControllerApplication'), _subscribers_req_clear=TList(FUNC), _subscribers_ack_clear=TList(FUNC))

# external objects of the ECU
ext('ThreadEvent', is_set=BOOL)
cls('ElectronicControlUnit', _job_thread_end=TRef('ThreadEvent'))

# ---- J1939-22 (CAN FD) data link layer
cls('J1939_22',
    _rcv_buffer=TTable(TRef('Rcv22')), _snd_buffer=TTable(TRef('Snd22')), _multi_pg_snd_buffer=TTable(TRef('Mpg22')),
    _cas=TList(TRef('ControllerApplication')), _LUT_FD_DLC=TList(INT),
    _minimum_tp_rts_cts_dt_interval=TOpt(REAL), _minimum_tp_bam_dt_interval=REAL, _max_cmdt_packets=INT,
    _J1939_22__bam_session_list=TList(BOOL), _J1939_22__rts_cts_session_list=TList(BOOL),
    _J1939_22__job_thread_wakeup=TFunc(), _J1939_22__send_message=TFunc(), _J1939_22__notify_subscribers=TFunc(),
    _J1939_22__ecu_is_message_acceptable=TFunc(BOOL, True))
rec('Snd22', pgn=INT, priority=INT, session=INT, message_size=INT, num_segments=INT, data=TList(TList(INT)), state=INT,
    deadline=REAL, src_address=INT, dest_address=INT, next_packet_to_send=INT, next_wait_on_cts=INT)
rec('Rcv22', pgn=INT, session=INT, message_size=INT, num_segments=INT, next_packet=INT, next_cts_border=INT,
    num_segments_max_rec=INT, data=TList(INT), deadline=REAL, src_address=INT, dest_address=INT)
rec('Mpg22', deadline=REAL, cpg=TList(TRef('Cpg')), fill_level=INT)
rec('Cpg', priority=INT, tos=INT, tf=INT, cpgn=INT, data_length=INT, data=TList(INT))

# ---- DM14 memory access (client, server, facade)
cls('Dm14Query',
    _ca=TRef('ControllerApplication'), state=TEnum('QueryState'), _seed_from_key=TOpt(TFunc(INT, True)),
    data_queue=TQueue(TOpt(OCTETS)), exception_queue=TQueue(TRef('PyException')), mem_data=TOpt(OCTETS), user_level=INT,
    command=TEnum('Command'), object_count=INT, address=INT, direct=INT, _dest_address=INT, _pgn=INT, bytes=OCTETS,
    object_byte_size=INT, signed=BOOL, return_raw_bytes=BOOL)
cls('DM14Server',
    _ca=TRef('ControllerApplication'), _busy=BOOL, sa=TOpt(INT), state=TEnum('ResponseState'), _key_from_seed=TOpt(TFunc(INT, True)),
    data_queue=TQueue(OCTETS), _seed_generator=TFunc(INT), address=TOpt(OCTETS), length=INT, proceed=BOOL, data=OCTETS,
    error=INT, edcp=INT, status=INT, direct=INT, pgn=INT, _pgn=INT, command=INT, pointer_type=INT, object_count=INT,
    access_level=INT, key=TOpt(INT), seed=TOpt(INT))
cls('MemoryAccess',
    _ca=TRef('ControllerApplication'), query=TRef('Dm14Query'), server=TRef('DM14Server'), state=TEnum('DMState'),
    seed_security=BOOL, _notify_query_received=TOpt(TFunc()), _seed_key_valid=TOpt(BOOL), _proceed_function=TOpt(TFunc(BOOL)),
    proceed=BOOL, address=INT)
cls('PyException')
