# J1939-21: frame builders against the independent SAE layouts (C03), send_pgn (C01 accept, C10 refuse),
# hashes.  The bus is the opaque callable self.__send_message; every call is an event of the ghost trace.

def cfg21_ok(dll):
    return (1 <= dll._max_cmdt_packets and dll._max_cmdt_packets <= 255 and dll._minimum_tp_bam_dt_interval > 0
            and implies(not is_none(dll._minimum_tp_rts_cts_dt_interval), dll._minimum_tp_rts_cts_dt_interval > 0))


@unit("j1939.j1939_21:J1939_21._buffer_hash", replay="native", props=["C01", "C10", "C06"])
def _(self: "J1939_21", src_address: "int", dest_address: "int"):
    requires(-2**40 <= src_address < 2**40, -2**40 <= dest_address < 2**40)
    ensures("C10.j21.hash", result == hash21(src_address, dest_address), 0 <= result < 65536)
    ensures("C10.j21.hash_injective", implies(0 <= src_address < 256 and 0 <= dest_address < 256,
                                               result // 256 == src_address and result % 256 == dest_address))


# ------------------------------------------------------------------ TP.CM / TP.DT builders (C03)

@unit("j1939.j1939_21:J1939_21.__send_tp_dt", props=["C03", "C01"])
def _(self: "J1939_21", src_address: "int", dest_address: "int", data: "octets"):
    requires(-2**40 <= src_address < 2**40, -2**40 <= dest_address < 2**40)
    ensures("C03.j21.dt", len(trace) == old(len(trace)) + 1,
            is_sent(trace[-1], self.__send_message, tp_dt_id(dest_address, src_address), data))


@unit("j1939.j1939_21:J1939_21.__send_tp_abort", props=["C03", "C06"])
def _(self: "J1939_21", src_address: "int", dest_address: "int", reason: "int", pgn_value: "int"):
    requires(-2**40 <= src_address < 2**40, -2**40 <= dest_address < 2**40, 0 <= pgn_value < 2**24)
    ensures("C03.j21.abort", len(trace) == old(len(trace)) + 1,
            is_sent(trace[-1], self.__send_message, tp_cm_id(7, dest_address, src_address), cm_abort(reason, pgn_value)))
    ensures("C03.j21.abort.pgn_rt", le3(trace[-1].l2[5], trace[-1].l2[6], trace[-1].l2[7]) == pgn_value)


@unit("j1939.j1939_21:J1939_21.__send_tp_cts", props=["C03", "C09"])
def _(self: "J1939_21", src_address: "int", dest_address: "int", num_packets: "int", next_packet: "int", pgn_value: "int"):
    requires(-2**40 <= src_address < 2**40, -2**40 <= dest_address < 2**40, 0 <= pgn_value < 2**24)
    ensures("C03.j21.cts", len(trace) == old(len(trace)) + 1,
            is_sent(trace[-1], self.__send_message, tp_cm_id(7, dest_address, src_address), cm_cts(num_packets, next_packet, pgn_value)))


@unit("j1939.j1939_21:J1939_21.__send_tp_eom_ack", props=["C03", "C01"])
def _(self: "J1939_21", src_address: "int", dest_address: "int", message_size: "int", num_packets: "int", pgn_value: "int"):
    requires(-2**40 <= src_address < 2**40, -2**40 <= dest_address < 2**40, 0 <= pgn_value < 2**24, 0 <= message_size < 65536)
    ensures("C03.j21.eom_ack", len(trace) == old(len(trace)) + 1,
            is_sent(trace[-1], self.__send_message, tp_cm_id(7, dest_address, src_address),
                    cm_eom_ack(message_size, num_packets, pgn_value)))
    ensures("C03.j21.eom_ack.size_rt", le2(trace[-1].l2[1], trace[-1].l2[2]) == message_size)


@unit("j1939.j1939_21:J1939_21.__send_tp_rts", props=["C03", "C01"])
def _(self: "J1939_21", src_address: "int", dest_address: "int", priority: "int", pgn_value: "int", message_size: "int",
      num_packets: "int", max_cmdt_packets: "int"):
    requires(-2**40 <= src_address < 2**40, -2**40 <= dest_address < 2**40, 0 <= pgn_value < 2**24,
             0 <= message_size < 65536, -2**40 <= priority < 2**40)
    ensures("C03.j21.rts", len(trace) == old(len(trace)) + 1,
            is_sent(trace[-1], self.__send_message, tp_cm_id(priority, dest_address, src_address),
                    cm_rts(message_size, num_packets, max_cmdt_packets, pgn_value)))
    ensures("C03.j21.rts.rt", le2(trace[-1].l2[1], trace[-1].l2[2]) == message_size,
            le3(trace[-1].l2[5], trace[-1].l2[6], trace[-1].l2[7]) == pgn_value)


@unit("j1939.j1939_21:J1939_21.__send_tp_bam", props=["C03", "C01"])
def _(self: "J1939_21", src_address: "int", priority: "int", pgn_value: "int", message_size: "int", num_packets: "int"):
    requires(-2**40 <= src_address < 2**40, 0 <= pgn_value < 2**24, 0 <= message_size < 65536, -2**40 <= priority < 2**40)
    ensures("C03.j21.bam", len(trace) == old(len(trace)) + 1,
            is_sent(trace[-1], self.__send_message, tp_cm_id(priority, 255, src_address),
                    cm_bam(message_size, num_packets, pgn_value)))


# ------------------------------------------------------------------ send_pgn (C01.accept, C10.j21.refuse, C03 single frame)

@unit("j1939.j1939_21:J1939_21.send_pgn", props=["C01", "C03", "C10", "C06", "C07"])
def _(self: "J1939_21", data_page: "int", pdu_format: "int", pdu_specific: "int", priority: "int", src_address: "int",
      data: "octets", time_limit: "real", frame_format: "int"):
    requires(inv21(self), len(data) <= 1785, 0 <= data_page <= 1, 0 <= pdu_format <= 255, 0 <= pdu_specific <= 255,
             0 <= priority <= 7, 0 <= src_address <= 255)
    let("size", len(data))
    let("n0", len(trace))
    let("dest", ite(pdu_specific == 255 or pdu_format >= 240, 255, pdu_specific))
    let("key", hash21(src_address, dest))
    let("busy", has_key(self._snd_buffer, key))
    let("send", self.__send_message)
    let("wake", self.__job_thread_wakeup)
    modifies(trace, table(self._snd_buffer))
    ensures("C07.inv21.send_pgn", inv21(self))
    # ---- up to 8 octets: one frame carrying exactly the payload, no session
    ensures("C01.accept.single", implies(size <= 8,
            result == True and len(trace) == n0 + 1
            and is_sent(trace[-1], send, can_id_of(priority, pgn_value_of(data_page, pdu_format, pdu_specific), src_address), data)
            and table_same_except(self._snd_buffer)))
    # ---- a transfer on this (source, destination) pair is still in progress: refused without any effect
    ensures("C10.j21.refuse", implies(size > 8 and busy,
            result == False and len(trace) == n0 and table_same_except(self._snd_buffer)))
    ensures("C10.j21.refuse_only_when_busy", implies(size > 8 and not busy, result == True))
    # ---- accepted multi-packet message: session record
    ensures("C01.accept.session", implies(size > 8 and not busy,
            has_key(self._snd_buffer, key) and table_same_except(self._snd_buffer, key)
            and self._snd_buffer[key]['message_size'] == size
            and self._snd_buffer[key]['num_packages'] == ceil7(size)
            and same_list(self._snd_buffer[key]['data'], data)
            and self._snd_buffer[key]['priority'] == priority
            and self._snd_buffer[key]['src_address'] == src_address and self._snd_buffer[key]['dest_address'] == dest
            and self._snd_buffer[key]['next_packet_to_send'] == 0
            and self._snd_buffer[key]['pgn'] == pgn_in_cm(data_page, pdu_format, pdu_specific)))
    # ---- broadcast: BAM announce, then paced packets
    ensures("C01.accept.bam", implies(size > 8 and not busy and dest == 255,
            len(trace) == n0 + 2
            and is_sent(trace[n0], send, tp_cm_id(priority, 255, src_address),
                        cm_bam(size, ceil7(size), pgn_in_cm(data_page, pdu_format, pdu_specific)))
            and trace[n0 + 1].fn == wake
            and self._snd_buffer[key]['state'] == S21_SENDING_BM
            and old(clock) + self._minimum_tp_bam_dt_interval <= self._snd_buffer[key]['deadline']
            and self._snd_buffer[key]['deadline'] <= clock + self._minimum_tp_bam_dt_interval))
    # ---- destination specific: RTS with own window limit, wait for CTS (T3)
    ensures("C01.accept.rts", implies(size > 8 and not busy and dest != 255,
            len(trace) == n0 + 2
            and is_sent(trace[n0], send, tp_cm_id(priority, dest, src_address),
                        cm_rts(size, ceil7(size), ite(self._max_cmdt_packets < ceil7(size), self._max_cmdt_packets, ceil7(size)),
                               pgn_in_cm(data_page, pdu_format, pdu_specific)))
            and trace[n0 + 1].fn == wake
            and self._snd_buffer[key]['state'] == S21_WAITING_CTS
            and self._snd_buffer[key]['next_wait_on_cts'] == 0
            and old(clock) + T3 <= self._snd_buffer[key]['deadline'] and self._snd_buffer[key]['deadline'] <= clock + T3))
