# J1939_22.notify: destination filter (PDU1 only) before any protocol handling (C05), dispatch of multi-PG frames, address
# claims, requests and FD.TP frames to the handlers.  Handlers are opaque here (verified as units of their own).

@unit("j1939.j1939_22:J1939_22.notify", props=["C05", "C04", "C14", "C02", "C03", "C07", "C11"])
def _(self: "J1939_22", can_id: "int", data: "octets", timestamp: "real"):
    requires(0 <= can_id < 2**29)
    opaque("ControllerApplication._process_addressclaim", "ControllerApplication._process_request",
           "J1939_22._process_tp_cm", "J1939_22._process_tp_dt", "J1939_22._process_multi_pg")
    modifies(trace)
    let("n0", len(trace))
    let("notify", self.__notify_subscribers)
    let("prio", id_priority(can_id))
    let("sa", id_sa(can_id))
    let("pf", bits(can_id, 16, 8))
    let("ps", bits(can_id, 8, 8))
    let("pgn17", bits(can_id, 8, 17))
    let("pgn_da0", bits(can_id, 16, 9) * 256)
    let("pdu2", pf >= 240)
    let("dest", ps)
    let("accepted", dest == ADDR_GLOBAL or self.__ecu_is_message_acceptable(dest)
        or exists(lambda j: ca_accepts(self._cas[j], dest), 0, len(self._cas)))
    # loop 1: search for a CA that accepts the destination
    invariant(1, _i1 <= len(self._cas), reject == True, len(trace) == n0,
              forall(lambda j: not ca_accepts(self._cas[j], dest), 0, _i1))
    # loop 2: address claims go to every CA of the stack
    invariant(2, _i2 <= len(self._cas), len(trace) == n0 + _i2,
              forall(lambda j: trace[n0 + j].fn == fn("ControllerApplication._process_addressclaim") and trace[n0 + j].n == 4
                     and trace[n0 + j].o0 == self._cas[j] and trace[n0 + j].o1 == mid and trace[n0 + j].r3 == timestamp
                     and same_list(trace[n0 + j].l2, data), 0, _i2))
    # loop 3: requests go to the CAs that accept the destination
    invariant(3, _i3 <= len(self._cas),
              len(trace) == n0 + count(lambda j: ca_accepts(self._cas[j], dest), 0, _i3),
              forall(lambda j: implies(ca_accepts(self._cas[j], dest),
                                       count(lambda k: ca_accepts(self._cas[k], dest), 0, j)
                                       < count(lambda k: ca_accepts(self._cas[k], dest), 0, _i3)), 0, _i3),
              forall(lambda j: implies(ca_accepts(self._cas[j], dest),
                                       trace[n0 + count(lambda k: ca_accepts(self._cas[k], dest), 0, j)].fn == fn("ControllerApplication._process_request")
                                       and trace[n0 + count(lambda k: ca_accepts(self._cas[k], dest), 0, j)].o0 == self._cas[j]
                                       and trace[n0 + count(lambda k: ca_accepts(self._cas[k], dest), 0, j)].o1 == mid
                                       and trace[n0 + count(lambda k: ca_accepts(self._cas[k], dest), 0, j)].i2 == dest
                                       and same_list(trace[n0 + count(lambda k: ca_accepts(self._cas[k], dest), 0, j)].l3, data)),
                     0, _i3))
    # ---- PDU2: a broadcast by definition - delivered to every listener whatever the group extension is
    ensures("C05.fd.accept.pdu2", implies(pdu2, len(trace) == n0 + 1
            and is_subscriber_call(trace[-1], notify, prio, pgn17, sa, ADDR_GLOBAL, timestamp, data)))
    # ---- PDU1 to an address nobody here owns: no delivery, no frame, no handler, no state
    ensures("C05.fd.reject", implies(not pdu2 and not accepted, len(trace) == n0))
    # ---- accepted PDU1
    ensures("C05.fd.accept.pdu1", implies(not pdu2 and accepted and pgn_da0 != 0xEE00 and pgn_da0 != 0xEA00 and pgn_da0 != 0x2500
                                          and pgn_da0 != 0x4D00 and pgn_da0 != 0x4E00 and pgn_da0 != 0xEC00 and pgn_da0 != 0xEB00,
            len(trace) == n0 + 1 and is_subscriber_call(trace[-1], notify, prio, pgn_da0, sa, dest, timestamp, data)))
    # classic (J1939-21) transport frames are not part of a J1939-22 network: ignored
    ensures("C05.fd.no_classic_tp", implies(not pdu2 and accepted and (pgn_da0 == 0xEC00 or pgn_da0 == 0xEB00), len(trace) == n0))
    ensures("C11.dll.multi_pg", implies(not pdu2 and accepted and pgn_da0 == 0x2500,
            len(trace) == n0 + 1 and trace[-1].fn == fn("J1939_22._process_multi_pg") and trace[-1].o0 == self
            and mid_is(trace[-1].o1, can_id) and trace[-1].i2 == dest and same_list(trace[-1].l3, data) and trace[-1].r4 == timestamp))
    ensures("C02.dll.tp_cm", implies(not pdu2 and accepted and pgn_da0 == 0x4D00,
            len(trace) == n0 + 1 and trace[-1].fn == fn("J1939_22._process_tp_cm") and trace[-1].o0 == self
            and mid_is(trace[-1].o1, can_id) and trace[-1].i2 == dest and same_list(trace[-1].l3, data) and trace[-1].r4 == timestamp))
    ensures("C02.dll.tp_dt", implies(not pdu2 and accepted and pgn_da0 == 0x4E00,
            len(trace) == n0 + 1 and trace[-1].fn == fn("J1939_22._process_tp_dt") and trace[-1].o0 == self
            and mid_is(trace[-1].o1, can_id) and trace[-1].i2 == dest and same_list(trace[-1].l3, data) and trace[-1].r4 == timestamp))
    # address claims are handed to every CA of the stack (claims are sent to the global address)
    ensures("C04.fd.bcast", implies(not pdu2 and accepted and pgn_da0 == 0xEE00,
            len(trace) == n0 + len(self._cas)
            and forall(lambda j: trace[n0 + j].fn == fn("ControllerApplication._process_addressclaim")
                       and trace[n0 + j].o0 == self._cas[j] and mid_is(trace[n0 + j].o1, can_id)
                       and same_list(trace[n0 + j].l2, data) and trace[n0 + j].r3 == timestamp, 0, len(self._cas))))
    # requests: exactly the CAs that accept the destination, once each, in order
    ensures("C14.fd.dispatch", implies(not pdu2 and accepted and pgn_da0 == 0xEA00,
            len(trace) == n0 + count(lambda j: ca_accepts(self._cas[j], dest), 0, len(self._cas))
            and forall(lambda j: implies(ca_accepts(self._cas[j], dest),
                                         trace[n0 + count(lambda k: ca_accepts(self._cas[k], dest), 0, j)].fn == fn("ControllerApplication._process_request")
                                         and trace[n0 + count(lambda k: ca_accepts(self._cas[k], dest), 0, j)].o0 == self._cas[j]
                                         and mid_is(trace[n0 + count(lambda k: ca_accepts(self._cas[k], dest), 0, j)].o1, can_id)
                                         and trace[n0 + count(lambda k: ca_accepts(self._cas[k], dest), 0, j)].i2 == dest
                                         and same_list(trace[n0 + count(lambda k: ca_accepts(self._cas[k], dest), 0, j)].l3, data)),
                       0, len(self._cas))))
