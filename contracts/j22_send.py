# J1939-22 send_pgn: multi-PG groups (<= 60 octets: C11.fit, C11.wake) and FD.TP sessions (> 60 octets: C02.accept, C02.cap)

def seg_len(size, i):
    # length of the i-th 60-octet segment of a message of `size` octets
    return ite(60 * i + 60 <= size, 60, size - 60 * i)


def segments_of(segs, payload, size):
    # the stored segment list cuts the payload into consecutive 60-octet pieces (the last one shorter)
    return forall(lambda i: len(segs[i]) == seg_len(size, i)
                  and forall(lambda j: segs[i][j] == payload[60 * i + j], 0, seg_len(size, i)), 0, ceil60(size))


def pgn_in_fd_cm(dp, pf, ps):
    # PGN field of an FD.TP.CM: for PDU1 PGNs (PF < 240) the PS octet of the PGN is 0
    return ite(bits(pf, 0, 8) < 240, pgn_value_of(dp, pf, 0), pgn_value_of(dp, pf, ps))


@unit("j1939.j1939_22:J1939_22.send_pgn", variant="tp", props=["C02", "C03", "C10", "C06", "C07", "C09"])
def _(self: "J1939_22", data_page: "int", pdu_format: "int", pdu_specific: "int", priority: "int", src_address: "int",
      data: "octets", time_limit: "real", frame_format: "int", tos: "int", trailer_format: "int"):
    requires(inv22(self), 60 < len(data), len(data) < 2**24, octets(data), 0 <= data_page <= 1, 0 <= pdu_format <= 255, 0 <= pdu_specific <= 255,
             0 <= priority <= 7, 0 <= src_address <= 255)
    bycontract("J1939_22.__get_rts_cts_session", "J1939_22.__get_bam_session", "J1939_22._buffer_hash",
               "J1939_22.__send_tp_bam", "J1939_22.__send_tp_rts")
    let("size", len(data))
    let("n0", len(trace))
    let("dest", ite(pdu_specific == 255 or pdu_format >= 240, 255, pdu_specific))
    let("send", self.__send_message)
    let("wake", self.__job_thread_wakeup)
    # the session number handed out: the lowest free one of the kind (8 / 4: none free)
    let("s", ite(dest == 255, old(first_free4(pool_bam(self))), old(first_free8(pool_rts(self)))))
    let("full", ite(dest == 255, s == 4, s == 8))
    let("key", hash22(s, src_address, dest))
    let("pgn", pgn_in_fd_cm(data_page, pdu_format, pdu_specific))
    modifies(trace, table(self._snd_buffer), elems(pool_rts(self)), elems(pool_bam(self)))
    ensures("C07.inv22.send_pgn", inv22(self))
    # ---- capacity: refused exactly when all session numbers of the kind are taken, and then without any effect
    ensures("C02.cap", implies(full, result == False and len(trace) == n0 and table_same_except(self._snd_buffer)
                               and same_list(pool_rts(self), old(pool_rts(self))) and same_list(pool_bam(self), old(pool_bam(self)))))
    ensures("C02.cap.only_when_full", implies(not full, result == True))
    # ---- accepted: exactly one number of the right pool is taken; the new session does not replace one in flight
    ensures("C10.fd.take", implies(not full,
            ite(dest == 255,
                same_list(pool_rts(self), old(pool_rts(self))) and old(pool_bam(self)[s]) == True and pool_bam(self)[s] == False
                and forall(lambda i: implies(i != s, pool_bam(self)[i] == old(pool_bam(self)[i])), 0, 4),
                same_list(pool_bam(self), old(pool_bam(self))) and old(pool_rts(self)[s]) == True and pool_rts(self)[s] == False
                and forall(lambda i: implies(i != s, pool_rts(self)[i] == old(pool_rts(self)[i])), 0, 8))))
    ensures("C02.accept.no_disturb", implies(not full,
            not old(has_key(self._snd_buffer, key)) and has_key(self._snd_buffer, key) and table_same_except(self._snd_buffer, key)))
    # ---- the session record
    ensures("C02.accept.session", implies(not full,
            self._snd_buffer[key]['session'] == s
            and self._snd_buffer[key]['message_size'] == size
            and self._snd_buffer[key]['num_segments'] == ceil60(size)
            and self._snd_buffer[key]['priority'] == priority
            and self._snd_buffer[key]['src_address'] == src_address and self._snd_buffer[key]['dest_address'] == dest
            and self._snd_buffer[key]['next_packet_to_send'] == 0
            and self._snd_buffer[key]['pgn'] == pgn))
    # ---- the payload cut into 60-octet segments (numpy chunking: assumed contract, see pyvc/numpy_model.py)
    ensures("C02.accept.segments", implies(not full, segments_of(self._snd_buffer[key]['data'], old(data), size)))
    # ---- broadcast: BAM announce, then paced segments (10 ms default)
    ensures("C02.accept.bam", implies(not full and dest == 255,
            len(trace) == n0 + 2
            and is_fd_sent(trace[n0], send, fd_cm_id(priority, 255, src_address), fd_cm(FD_BAM, s, size, ceil60(size), 0xFF, 0, pgn))
            and trace[n0 + 1].fn == wake
            and self._snd_buffer[key]['state'] == S22_SENDING_BAM
            and old(clock) + self._minimum_tp_bam_dt_interval <= self._snd_buffer[key]['deadline']
            and self._snd_buffer[key]['deadline'] <= clock + self._minimum_tp_bam_dt_interval))
    # ---- destination specific: RTS with own window limit, wait for CTS (T3)
    ensures("C02.accept.rts", implies(not full and dest != 255,
            len(trace) == n0 + 2
            and is_fd_sent(trace[n0], send, fd_cm_id(priority, dest, src_address),
                           fd_cm(FD_RTS, s, size, ceil60(size), mn(self._max_cmdt_packets, ceil60(size)), 0, pgn))
            and trace[n0 + 1].fn == wake
            and self._snd_buffer[key]['state'] == S22_WAITING_CTS
            and self._snd_buffer[key]['next_wait_on_cts'] == 0
            and old(clock) + T3 <= self._snd_buffer[key]['deadline'] and self._snd_buffer[key]['deadline'] <= clock + T3))


# ------------------------------------------------------------------ groups of up to 60 octets: multi-PG
def cpgn_of_pgn(dp, pf, ps):
    # C-PGN of a parameter group: PDU1 groups carry the destination in the identifier, not in the C-PGN (PS = 0)
    return ite(bits(pf, 0, 8) < 240, pgn_value_of(dp, pf, 0), pgn_value_of(dp, pf, ps))


def is_group_of(c, prio, tos, tf, cpgn, payload, size):
    return (cpg_ok(c) and c['priority'] == prio and c['tos'] == bits(tos, 0, 3) and c['tf'] == bits(tf, 0, 3) and c['cpgn'] == cpgn
            and c['data_length'] == size and forall(lambda t: c['data'][t] == payload[t], 0, size))


def mpg_rec_same(dll, k):
    # collection buffer k is exactly as it was at the head of the iteration
    return (has_key(dll._multi_pg_snd_buffer, k)
            and dll._multi_pg_snd_buffer[k] == at_head(dll._multi_pg_snd_buffer[k])
            and dll._multi_pg_snd_buffer[k]['fill_level'] == at_head(dll._multi_pg_snd_buffer[k]['fill_level'])
            and dll._multi_pg_snd_buffer[k]['deadline'] == at_head(dll._multi_pg_snd_buffer[k]['deadline'])
            and same_list(dll._multi_pg_snd_buffer[k]['cpg'], at_head(dll._multi_pg_snd_buffer[k]['cpg'])))


@unit("j1939.j1939_22:J1939_22.send_pgn", variant="mpg", props=["C11", "C03", "C06", "C07"])
def _(self: "J1939_22", data_page: "int", pdu_format: "int", pdu_specific: "int", priority: "int", src_address: "int",
      data: "octets", time_limit: "real", frame_format: "int", tos: "int", trailer_format: "int"):
    requires(inv22(self), len(data) <= 60, octets(data), 0 <= data_page <= 1, 0 <= pdu_format <= 255, 0 <= pdu_specific <= 255,
             0 <= priority <= 7, 0 <= src_address <= 255, 0 <= tos < 2**16, 0 <= trailer_format < 2**16, 0 <= frame_format <= 3,
             # the payload list handed in is the caller's: not one of the lists the stack keeps in its buffers
             not has_key(owner(data), 'fill_level'), not has_key(owner(data), 'next_packet'), not has_key(owner(data), 'tos'),
             not has_key(owner(data), 'next_packet_to_send'), no_alias(owner(data), self))
    bycontract("J1939_22.__send_multi_pg", "J1939_22._buffer_hash_mpg")
    let("size", len(data))
    let("n0", len(trace))
    let("dst", ite(pdu_format < 240, pdu_specific, 255))
    let("cpgn", cpgn_of_pgn(data_page, pdu_format, pdu_specific))
    let("prio", ite(frame_format == FBFF, 0, priority))
    let("send", self.__send_message)
    let("wake", self.__job_thread_wakeup)
    let("refused", frame_format == FBFF and dst != 255)
    let("payload", old(data))
    # (frame: stated explicitly below - C11.frame_cond, C11.sep; the loop abstraction touches these heap arrays wholesale)
    modifies(trace, table(self._multi_pg_snd_buffer),
             arrays('k:fill_level', 'k:fill_level#has', 'k:deadline', 'k:deadline#has', 'LEN', 'EL', 'ER', 'EX', 'KIND'))
    ensures("C07.inv22.send_pgn.mpg", inv22(self))
    # ---- a base-format (FBFF) frame has no destination field: only broadcast groups; refused without effect
    ensures("C11.fbff.refuse", implies(refused, result == False and len(trace) == n0 and table_same_except(self._multi_pg_snd_buffer)))
    ensures("C11.accept", implies(not refused, result == True))
    ensures("C11.frame_cond", table_same_except(self._snd_buffer), table_same_except(self._rcv_buffer), same_list(data, payload))
    # ---- no time limit: exactly one frame carrying exactly this group, at once; the collection buffers are untouched
    ensures("C11.immediate", implies(not refused and time_limit == 0,
            len(trace) == n0 + 1 and trace[-1].fn == send and trace[-1].n == 3 and trace[-1].b_fd_format == True
            and len(trace[-1].l2) == fd_len(4 + size)
            and forall(lambda b: trace[-1].l2[b] == cpg_header_octet(tos, trailer_format, cpgn, size, b), 0, 4)
            and forall(lambda t: trace[-1].l2[4 + t] == payload[t], 0, size)
            and forall(lambda i: pad_at(trace[-1].l2, 4 + size, i), 4 + size, len(trace[-1].l2))
            and ite(frame_format == FBFF, trace[-1].i0 == src_address and trace[-1].b1 == False,
                    trace[-1].i0 == fd_mpg_id(prio, dst, src_address) and trace[-1].b1 == True)
            and table_same_except(self._multi_pg_snd_buffer)))
    # ---- with a time limit: the group joins the first collection buffer for (format, counter, source, destination) with room
    invariant(1, inv22(self), 0 <= session, len(data) == size, same_list(data, payload),
              not has_key(owner(data), 'fill_level') and not has_key(owner(data), 'next_packet') and not has_key(owner(data), 'tos')
              and not has_key(owner(data), 'next_packet_to_send') and no_alias(owner(data), self),
              is_group_of(cpg, prio, tos, trailer_format, cpgn, payload, size),
              not has_key(cpg, 'fill_level') and not has_key(cpg, 'deadline'),
              at_entry(clock) - 0 <= clock, deadline <= clock + time_limit, at_entry(deadline) == deadline,
              len(trace) >= n0, forall(lambda j: trace[j].fn == wake and trace[j].n == 0, n0, len(trace)),
              # the group is not yet in any buffer
              keys_forall(self._multi_pg_snd_buffer, lambda k, r: forall(lambda i: r['cpg'][i] != cpg, 0, len(r['cpg']))),
              dst_address == dst, time_limit != 0, not refused, src_address == at_entry(src_address), frame_format == at_entry(frame_format))
    body_ensures(1, "C11.fit",
                 hash == hash_mpg(frame_format, at_head(session), src_address, dst),
                 # (a) no buffer under this key yet: a new one holding just this group
                 implies(not at_head(has_key(self._multi_pg_snd_buffer, hash)),
                         has_key(self._multi_pg_snd_buffer, hash) and len(self._multi_pg_snd_buffer[hash]['cpg']) == 1
                         and self._multi_pg_snd_buffer[hash]['cpg'][0] == cpg
                         and self._multi_pg_snd_buffer[hash]['fill_level'] == 4 + size
                         and self._multi_pg_snd_buffer[hash]['deadline'] == deadline),
                 # (b) room left (fill + 4 + size <= 64): appended behind the groups already there, earliest deadline kept
                 implies(at_head(has_key(self._multi_pg_snd_buffer, hash))
                         and at_head(self._multi_pg_snd_buffer[hash]['fill_level']) <= 60 - size,
                         len(self._multi_pg_snd_buffer[hash]['cpg']) == at_head(len(self._multi_pg_snd_buffer[hash]['cpg'])) + 1
                         and self._multi_pg_snd_buffer[hash]['cpg'][-1] == cpg
                         and forall(lambda i: self._multi_pg_snd_buffer[hash]['cpg'][i] == at_head(self._multi_pg_snd_buffer[hash]['cpg'])[i],
                                    0, at_head(len(self._multi_pg_snd_buffer[hash]['cpg'])))
                         and self._multi_pg_snd_buffer[hash]['fill_level'] == at_head(self._multi_pg_snd_buffer[hash]['fill_level']) + 4 + size
                         and self._multi_pg_snd_buffer[hash]['deadline'] == ite(at_head(self._multi_pg_snd_buffer[hash]['deadline']) > deadline,
                                                                              deadline, at_head(self._multi_pg_snd_buffer[hash]['deadline']))),
                 # (c) no room: that buffer is due at once (it is sent by the next pass), the next counter is tried
                 implies(at_head(has_key(self._multi_pg_snd_buffer, hash))
                         and at_head(self._multi_pg_snd_buffer[hash]['fill_level']) > 60 - size,
                         self._multi_pg_snd_buffer[hash]['deadline'] <= clock
                         and self._multi_pg_snd_buffer[hash]['fill_level'] == at_head(self._multi_pg_snd_buffer[hash]['fill_level'])
                         and same_list(self._multi_pg_snd_buffer[hash]['cpg'], at_head(self._multi_pg_snd_buffer[hash]['cpg']))
                         and session == at_head(session) + 1))
    # C11.wake: whenever a buffer is created, gets a group (possibly an earlier deadline) or is made due, the job thread is woken
    body_ensures(1, "C11.wake", len(trace) == at_head(len(trace)) + 1 and trace[-1].fn == wake)
    # groups for other destinations / sources / formats / counters are never touched
    body_ensures(1, "C11.sep",
                 keys_forall(self._multi_pg_snd_buffer, lambda k, r: implies(k != hash, at_head(has_key(self._multi_pg_snd_buffer, k)))),
                 forall(lambda k: implies(k != hash and at_head(has_key(self._multi_pg_snd_buffer, k)), mpg_rec_same(self, k))))
