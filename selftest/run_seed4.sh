#!/bin/sh
# usage: run_seed4.sh <worktree> <diff> <prop...>   : apply diff in worktree, run checks with PYVC_REPO=<worktree>, revert
wt=$1; diff=$2; shift 2
cd $wt && git checkout -q -- j1939 && git apply $diff || exit 9
for p in "$@"; do (cd /verif && PYVC_REPO=$wt ./check $p 2>&1 | grep "^VIOLATION\|^UNDECIDED\|^CHECKER\|^KNOWN\|^C[0-9][0-9]:" | cut -c1-330 | awk '!seen[$0]++' | head -6); done
cd $wt && git checkout -q -- j1939
