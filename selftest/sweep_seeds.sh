#!/bin/sh
# sweep_seeds.sh [<seed-id>...]: apply every archived seeded change (seeded/<id>/patch.diff) to a scratch worktree of /repo at
# HEAD, run the quick check of the seed's property against it, report the exit code and the obligations named, revert.
# The scratch worktree is created outside /repo and /verif and removed afterwards.
WT=/tmp/sweep_wt_$$
git -C /repo worktree add -q --detach $WT HEAD || exit 9
cd /verif
ids="$@"; [ -z "$ids" ] && ids=$(ls seeded)
for id in $ids; do
  P=$(python3 -c "import json;print(json.load(open('seeded/$id/meta.json'))['property'])")
  (cd $WT && git reset -q --hard && git apply --3way /verif/seeded/$id/patch.diff >/dev/null 2>&1) || { echo "$id $P APPLY-FAILED"; continue; }
  out=$(PYVC_REPO=$WT timeout 3000 ./check $P 2>&1); rc=$?
  obl=$(echo "$out" | grep "^VIOLATION" | sed 's/.*obligation=\([^ ]*\).*/\1/' | sed 's/@.*//' | sort -u | head -4 | tr '\n' ' ')
  echo "$id $P exit=$rc $(echo "$out" | grep "^$P:" | sed 's/.*obligations, //; s/; exit.*//') :: $obl"
done
git -C /repo worktree remove --force $WT
