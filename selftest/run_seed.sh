#!/bin/sh
# usage: run_seed.sh <worktree> <diff> <prop...>   : apply diff in worktree, run checks with PYVC_REPO=<worktree>, revert
wt=$1; diff=$2; shift 2
cd $wt && git apply $diff || exit 9
for p in "$@"; do (cd /verif && PYVC_REPO=$wt ./check $p 2>&1 | grep -v "^  File\|^    \|^Traceback" | tail -4 | cut -c1-260); done
cd $wt && git checkout -- j1939
