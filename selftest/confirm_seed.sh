#!/bin/sh
# confirm_seed.sh <prop> <k>: re-verify seed k of property prop in its scratch worktree /tmp/seed_<prop>, then copy it to /verif/seeded/<prop>-m<k>/
P=$1; K=$2; WT=/tmp/seed_$P; OUT=/verif/seeded/$P-m$K
cd $WT || exit 9
git checkout -q -- j1939
/venv/bin/python _seed/m${K}_demo.py >/tmp/confirm_${P}_$K.pristine 2>&1; r0=$?
git apply _seed/m$K.diff || exit 8
/venv/bin/python _seed/m${K}_demo.py >/tmp/confirm_${P}_$K.mutated 2>&1; r1=$?
tests=$(/venv/bin/python -m pytest -q -p no:cacheprovider --timeout=900 2>&1 | tail -1)
git checkout -q -- j1939
mkdir -p $OUT
cp _seed/m$K.diff $OUT/patch.diff; cp _seed/m${K}_demo.py $OUT/demo.py
python3 - "$P" "$K" "$r0" "$r1" "$tests" <<'PY'
import json,sys
P,K,r0,r1,tests=sys.argv[1:6]
m=json.load(open('/tmp/seed_%s/_seed/m%s.json'%(P,K)))
meta={'property':P,'files':m.get('files'),'summary':m.get('summary'),'needs':m.get('needs'),
 'confirmed':{'demo_exit_pristine':int(r0),'demo_exit_mutated':int(r1),'pinned_suite_with_change':tests,
              'how':'scratch worktree /tmp/seed_%s: demo on pristine tree, git apply patch.diff, demo, full pinned pytest suite, git checkout'%P},
 'origin':'independent sub-agent given only the property text and a scratch worktree'}
json.dump(meta,open('/verif/seeded/%s-m%s/meta.json'%(P,K),'w'),indent=1)
print(P,K,'pristine',r0,'mutated',r1,tests)
PY
