import sys,time; sys.path.insert(0,'/verif')
from pyvc.run import load_all
from pyvc.engine import Engine
from pyvc.core import has_quantifier
import z3
repo, schema, units, sf, sc = load_all()
u=[x for x in units if sys.argv[1] in x.name][0]
path=int(sys.argv[2]); sub=sys.argv[3]
eng=Engine(repo,schema,units,sf,sc,u)
res=eng.run()
o=[o for o in res.obligations if o.path==path and sub in (o.info.get('expr') or o.name()) and (len(sys.argv)<5 or o.kind==sys.argv[4])][0]
print(o.name(), o.info.get('expr'), 'pc', len(o.pc))
def chk(pc, tmo=5000):
    s=z3.Solver(); s.set('timeout',tmo)
    for f in pc: s.add(f)
    s.add(z3.Not(o.goal)); t=time.time(); r=s.check(); return str(r), time.time()-t
print('full', chk(o.pc))
qf=[f for f in o.pc if not has_quantifier(f)]
print('qf only', len(qf), chk(qf))
qs=[f for f in o.pc if has_quantifier(f)]
print('n quantified', len(qs))
# add quantified one at a time
for i,f in enumerate(qs):
    r=chk(qf+[f], 3000)
    print(i, r, str(f)[:150].replace('\n',' '))
