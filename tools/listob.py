import sys,time; sys.path.insert(0,'/verif')
from pyvc.run import load_all
from pyvc.engine import Engine
from pyvc.solve import discharge
repo, schema, units, sf, sc = load_all()
u=[x for x in units if sys.argv[1] in x.name][0]
path=int(sys.argv[2]); tmo=int(sys.argv[3]) if len(sys.argv)>3 else 5000
eng=Engine(repo,schema,units,sf,sc,u)
res=eng.run()
for o in res.obligations:
    if o.path==path and o.status is None:
        discharge(o, tmo, False)
        if o.status!='proved' or o.time>1: print(o.status, '%.1f'%o.time, o.name(), (o.info.get('expr') or '')[:110])
