"""markdown table of the seeded changes and the sweep result (selftest/sweep_seeds.sh output on stdin or in argv[1])"""
import json, os, re, sys
V = os.path.dirname(os.path.dirname(os.path.abspath(__file__)))
res = {}
for ln in open(sys.argv[1]):
    m = re.match(r'^(\S+) (\S+) exit=(\d+) (.*?) :: (.*)$', ln.strip())
    if m:
        res[m.group(1)] = (m.group(3), m.group(4), m.group(5).strip())
    elif 'APPLY-FAILED' in ln:
        res[ln.split()[0]] = ('-', 'patch does not apply on the current tree', '')
print('| seed | change | quick check of its property | obligations named |')
print('|---|---|---|---|')
for sid in sorted(os.listdir(os.path.join(V, 'seeded'))):
    m = json.load(open(os.path.join(V, 'seeded', sid, 'meta.json')))
    s = (m.get('summary') or '').replace('\n', ' ').replace('|', '/')
    s = s[:150] + ('...' if len(s) > 150 else '')
    r = res.get(sid)
    if r is None:
        print('| %s | %s | not run | |' % (sid, s))
    else:
        verdict = {'1': 'caught (exit 1)', '0': '**missed** (exit 0)', '2': '**undecided** (exit 2)', '3': '**checker error** (exit 3)', '-': 'n/a'}.get(r[0], r[0])
        print('| %s | %s | %s | %s |' % (sid, s, verdict, ' '.join('`%s`' % x for x in r[2].split()[:3])))
