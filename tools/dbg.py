import sys,json,time; sys.path.insert(0,'/verif')
from pyvc.run import load_all
from pyvc.engine import Engine
import z3
repo, schema, units, sf, sc = load_all()
uname, label = sys.argv[1], sys.argv[2]
path = int(sys.argv[3]) if len(sys.argv)>3 else None
idx = int(sys.argv[4]) if len(sys.argv)>4 else 0
u=[x for x in units if uname in x.name][0]
eng=Engine(repo,schema,units,sf,sc,u)
res=eng.run()
obs=[o for o in res.obligations if label in o.name() and (path is None or o.path==path)]
print(len(obs),'matching'); 
o=obs[idx]
print(o.name(), o.info)
for f in o.pc:
    print('PC:', str(f)[:1200].replace('\n',' ')); 
print('GOAL:', str(o.goal)[:4000])
s=z3.Solver(); s.set('timeout',20000)
for f in o.pc: s.add(f)
s.add(z3.Not(o.goal)); t=time.time(); print(s.check(), time.time()-t)
if '--smt' in sys.argv: open('/tmp/dbg.smt2','w').write(s.to_smt2())
if '--sk' in sys.argv and z3.is_quantifier(o.goal):
    g=o.goal; n=g.num_vars(); vs=[z3.Const('sk%d'%i, g.var_sort(i)) for i in range(n)]
    body=z3.substitute_vars(g.body(), *reversed(vs))
    s=z3.Solver(); s.set('timeout',20000)
    for f in o.pc: s.add(f)
    s.add(z3.Not(body)); print(s.check()); m=s.model()
    print('witness', [m[v] for v in vs])
    # evaluate disjuncts / conjuncts
    def show(t, depth=0):
        v=m.eval(t, model_completion=True)
        if depth<4 and (z3.is_and(t) or z3.is_or(t) or z3.is_not(t)):
            print('  '*depth, t.decl().name(), v)
            for c in t.children(): show(c, depth+1)
        else:
            print('  '*depth, v, str(t)[:160].replace('\n',' '))
    show(body)
if '--ev' in sys.argv and z3.is_quantifier(o.goal):
    s=z3.Solver(); s.set('timeout',20000)
    for f in o.pc: s.add(f)
    s.add(z3.Not(o.goal)); print(s.check()); m=s.model()
    g=o.goal
    it_=[d for d in m.decls() if d.name().startswith('iter!')]
    n=m[it_[0]].as_long() if it_ else 3
    print('iter', n)
    def show(t, depth=0):
        v=m.eval(t, model_completion=True)
        if depth<5 and (z3.is_and(t) or z3.is_or(t) or z3.is_not(t)):
            print('  '*depth, t.decl().name(), v)
            for c in t.children(): show(c, depth+1)
        else:
            print('  '*depth, v, str(t)[:200].replace('\n',' '))
    for j in range(0, min(n,8)+1):
        body=z3.substitute_vars(g.body(), z3.IntVal(j))
        v=m.eval(body, model_completion=True)
        print('j=',j,v)
        if z3.is_false(v): show(body)
if '--pcq' in sys.argv:
    s=z3.Solver(); s.set('timeout',20000)
    for f in o.pc: s.add(f)
    s.add(z3.Not(o.goal)); print(s.check()); m=s.model()
    def show(t, depth=0):
        v=m.eval(t, model_completion=True)
        if depth<5 and (z3.is_and(t) or z3.is_or(t) or z3.is_not(t)):
            print('  '*depth, t.decl().name(), v)
            for c in t.children(): show(c, depth+1)
        else:
            print('  '*depth, v, str(t)[:300].replace('\n',' '))
    for f in o.pc:
        if z3.is_quantifier(f) and f.num_vars()==1 and 'k:ev' in str(f):
            for j in (0,2):
                body=z3.substitute_vars(f.body(), z3.IntVal(j))
                v=m.eval(body, model_completion=True); print('PCQ j=',j,v, str(f)[:80])
                if '--show' in sys.argv: show(body)
if '--len' in sys.argv:
    s=z3.Solver(); s.set('timeout',20000)
    for f in o.pc: s.add(f)
    s.add(z3.Not(o.goal)); print(s.check()); m=s.model()
    def find(t, out):
        if z3.is_eq(t) and 'LEN' in str(t.arg(0))[:60]: out.append(t)
        for c in t.children(): find(c,out)
    for nm,f in [('GOAL',o.goal)]+[('PC',f) for f in o.pc if z3.is_quantifier(f) and 'k:ev' in str(f) and f.num_vars()==1]:
        for j in (0,1,2,3):
            body=z3.substitute_vars(f.body(), z3.IntVal(j)); out=[]; find(body,out)
            for t in out[:2]:
                print(nm,'j=',j, m.eval(t,model_completion=True), '|', m.eval(t.arg(0),model_completion=True), m.eval(t.arg(1),model_completion=True))
                # sub terms
                for c in t.arg(0).children(): print('     idx/arr:', str(m.eval(c,model_completion=True))[:100])
    for d in m.decls():
        if d.name().startswith('iter') or d.name().startswith('nr'): print(d.name(), m[d])
if '--sizes' in sys.argv:
    def size(t):
        seen=set(); st=[t]; n=0
        while st:
            x=st.pop()
            if x.get_id() in seen: continue
            seen.add(x.get_id()); n+=1; st.extend(x.children())
        return n
    sz=sorted([(size(f), str(f)[:100].replace('\n',' ')) for f in o.pc], reverse=True)
    print('total', sum(s for s,_ in sz))
    for s_,t in sz[:15]: print(s_, t)
if '--drop' in sys.argv:
    pat=sys.argv[sys.argv.index('--drop')+1]
    pc=[f for f in o.pc if pat not in str(f)[:200]]
    print('kept', len(pc), 'of', len(o.pc))
    for opts in ({}, {'smt.ematching':False}):
        s=z3.Solver(); s.set('timeout',20000)
        for k,v in opts.items(): s.set(k,v)
        for f in pc: s.add(f)
        s.add(z3.Not(o.goal)); t=time.time(); print(opts, s.check(), time.time()-t)
if '--weak' in sys.argv:
    from pyvc.core import has_user_quantifier
    lite=[f for f in o.pc if not has_user_quantifier(f)]
    s=z3.Solver(); s.set('timeout',20000)
    for f in lite: s.add(f)
    s.add(z3.Not(o.goal)); print('lite', s.check()); m=s.model()
    def show(t, depth=0):
        v=m.eval(t, model_completion=True)
        if depth<6 and (z3.is_and(t) or z3.is_or(t) or z3.is_not(t) or z3.is_implies(t)):
            print('  '*depth, t.decl().name(), v)
            for c in t.children(): show(c, depth+1)
        else:
            print('  '*depth, v, str(t)[:260].replace('\n',' '))
    show(o.goal)
