"""markdown table: per property units / obligations / solver seconds from evidence/*.json"""
import json, os
V = os.path.dirname(os.path.dirname(os.path.abspath(__file__)))
print('| property | level | units | obligations discharged | by back end | bounded stand-ins | solver s |')
print('|---|---|---|---|---|---|---|')
for fn in sorted(os.listdir(os.path.join(V, 'evidence'))):
    d = json.load(open(os.path.join(V, 'evidence', fn)))
    c = d['coverage']
    bb = ', '.join('%s %d' % (k, v) for k, v in sorted(c.get('by_backend', {}).items(), key=lambda kv: -kv[1]))
    bd = '; '.join(['%s (%d obl.)' % (b['unit'].split('.')[-1], b['obligations']) for b in c.get('bounded_units', [])]
                   + ['%s: %s' % (b['cmd'].split('/')[-1], 'ok' if b['exit'] == 0 else 'exit %d' % b['exit']) for b in c.get('bounded_runs', [])])
    print('| %s | %s | %d | %d / %d | %s | %s | %.0f |' % (d['property_id'], d['level'], len(c['units']), c['discharged'], c['obligations'], bb, bd or '-', c['solver_s']))
