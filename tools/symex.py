import sys, time
sys.path.insert(0, '/verif')
from pyvc.run import load_all
from pyvc.engine import Engine

repo, schema, units, sf, sc = load_all()
u = [x for x in units if sys.argv[1] in x.name][0]
eng = Engine(repo, schema, units, sf, sc, u)
t0 = time.time()
orig = eng.run_path
cnt = [0]


def rp(it, st, fi):
    cnt[0] += 1
    t = time.time()
    try:
        return orig(it, st, fi)
    finally:
        print('path', cnt[0], '%.1fs' % (time.time() - t), 'obl', len(st.obligations), 'pc', len(st.pc), 'checks', eng.solver.n_checks,
              'line', st.cur_line, ' '.join(st.oracle.tags) if '--tags' in sys.argv else '', flush=True)


eng.run_path = rp
res = eng.run()
print('paths', res.paths, 'ended', res.paths_ended, 'obl', len(res.obligations), '%.1fs' % (time.time() - t0))
