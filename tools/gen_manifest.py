"""regenerate /verif/MANIFEST.json from pyvc/props.py (claimed properties) and properties.jsonl"""
import json, os, sys
sys.path.insert(0, os.path.dirname(os.path.dirname(os.path.abspath(__file__))))
from pyvc.props import PROPS, LEVEL_TEXT, LEVEL_NOTE
V = os.path.dirname(os.path.dirname(os.path.abspath(__file__)))
ids = [json.loads(l)['id'] for l in open(os.path.join(V, 'properties.jsonl'))]
NA = {
    'C08': 'The property quantifies over pre-emption points of the real background thread relative to the receive thread (schedules of two '
           'OS threads sharing the session tables without locks). Per-call contracts decide one call of one function on one thread; the '
           'interference mode sketched in DESIGN.md 2.7 (havoc of the shared tables at every statement boundary under a rely condition) '
           'was not built, and without it no contract within reach expresses "the same outcome wherever the thread is suspended". What '
           'the contracts do establish and C08 would build on is reported under C01/C02/C07 (state advanced before the frame is handed to '
           'the bus, the pass iterates over snapshots of the keys, every handler preserves the class invariant from any state satisfying '
           'it). No other technique is substituted.',
}
checks = []
for pid in ids:
    if pid not in PROPS or PROPS[pid].get('unclaimed'):
        continue
    m = PROPS[pid]
    checks.append({
        'property_id': pid,
        'quick_cmd': './check %s --tier quick' % pid,
        'thorough_cmd': './check %s --tier thorough' % pid,
        'evidence_file': 'evidence/%s.json' % pid,
        'replay_cmd_template': './check %s --replay {path}' % pid,
        'engine': 'pyvc',
        'level_claimed': {'category': 'proof', 'text': LEVEL_TEXT + ' Scope for this property: ' + m['explanation'],
                          'design_ref': 'DESIGN.md section ' + m.get('design_ref', '6')},
        'level_note': LEVEL_NOTE + (' Not decided here: ' + '; '.join(m['out_of_scope']) if m.get('out_of_scope') else ''),
        'technique': 'contract-based deductive verification: VC generation from the real Python AST (pyvc), discharged by z3/cvc5',
    })
na = []
for pid in ids:
    if pid in PROPS and not PROPS[pid].get('unclaimed'):
        continue
    reason = (PROPS.get(pid) or {}).get('unclaimed') or NA.get(pid) or 'contracts for the functions this property depends on are not built yet (build in progress, DESIGN.md section 10); no other technique is substituted'
    na.append({'property_id': pid, 'reason': reason})
man = {
    'version': 1,
    'setup_cmd': 'python3-vt -m pyvc.selfcheck',
    'hooks': {'guard': 'J1939_VERIF', 'enable': 'no hooks: contracts are sidecar files under /verif/contracts; /repo is parsed on every run, never instrumented',
              'baseline_off_cmd': 'cd /repo && /venv/bin/python -m pytest -ra -q -p no:cacheprovider --timeout=900 --continue-on-collection-errors',
              'source_commits': [], 'add_only': True},
    'engines': [{'name': 'pyvc', 'path': 'pyvc/', 'serves_properties': [c['property_id'] for c in checks],
                 'kind_free_text': 'verification-condition generator for a Python subset (symbolic execution of the real function bodies, contracts in sidecar files, loops by invariant, ghost trace of call-outs) with z3 / cvc5 back ends'}],
    'checks': checks,
    'notes': 'Contracts: contracts/*.py, independent SAE layout specs: specs/*.py, known findings / fixed defects: known_findings.json, demonstrations: findings/. Exit codes: 0 held, 1 violation, 2 undecided, 3 checker error.',
    'not_applicable': na,
}
json.dump(man, open(os.path.join(V, 'MANIFEST.json'), 'w'), indent=1)
print('claimed', [c['property_id'] for c in checks], 'not applicable', [n['property_id'] for n in na])
