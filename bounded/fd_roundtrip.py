"""BOUNDED native check (never counted as proved): two real J1939_22 objects wired back to back (no threads, virtual
clock), RTS/CTS and BAM transfers for every payload length lo..hi; checks delivery exactly once, byte-identical, and that the
segment list stored by send_pgn (numpy chunking, assumed contract of pyvc/numpy_model.py) equals payload[60i:60i+60].
usage: /venv/bin/python fd_roundtrip.py [repo_root] [lo] [hi] [step]"""
import sys
root = sys.argv[1] if len(sys.argv) > 1 else '/repo'
sys.path.insert(0, root)
import time as _time
from j1939.j1939_22 import J1939_22
import j1939.j1939_22 as mod

lo = int(sys.argv[2]) if len(sys.argv) > 2 else 61
hi = int(sys.argv[3]) if len(sys.argv) > 3 else 400
step = int(sys.argv[4]) if len(sys.argv) > 4 else 1

clock = [1000.0]


class FakeTime:
    @staticmethod
    def time():
        return clock[0]


mod.time = FakeTime
bad = []


def run(size, dest, window):
    q = []
    got = {0x90: [], 0x20: []}
    st = {}
    for adr in (0x90, 0x20):
        st[adr] = J1939_22(lambda cid, ext, data, fd_format=False, a=adr: q.append((a, cid, list(data))), lambda: None,
                           lambda prio, pgn, sa, da, ts, data, a=adr: got[a].append((prio, pgn, sa, da, list(data))),
                           window, None, None, lambda d, a=adr: d == a)
    payload = [(i * 7 + size) & 255 for i in range(size)]
    assert st[0x90].send_pgn(0, 0xD0, dest, 6, 0x90, list(payload), 0, 3)
    rec = list(st[0x90]._snd_buffer.values())[0]
    segs = rec['data']
    exp = [payload[i:i + 60] for i in range(0, size, 60)]
    if [s for s in segs if s] != exp:
        bad.append('chunking size %d: stored segments differ from payload[60i:60i+60]' % size)
    for _ in range(20000):
        while q:
            a, cid, data = q.pop(0)
            other = 0x20 if a == 0x90 else 0x90
            st[other].notify(cid, data, clock[0])
        clock[0] += 0.011
        for s in st.values():
            s.async_job_thread(clock[0])
        if not q and not st[0x90]._snd_buffer and not st[0x20]._rcv_buffer:
            break
    d = [g for g in got[0x20] if g[1] == 0xD000]
    if len(d) != 1 or d[0][4] != payload or d[0][2] != 0x90:
        bad.append('size %d dest %#x window %d: delivered %d times%s' % (size, dest, window, len(d), '' if not d else ' (payload differs)' if d[0][4] != payload else ''))
    if st[0x90]._snd_buffer or st[0x20]._rcv_buffer:
        bad.append('size %d dest %#x: sessions left open' % size)


n = 0
for size in range(lo, hi + 1, step):
    for dest, window in ((0x20, 255), (0x20, 1), (0x20, 3), (0xFF, 255)):
        run(size, dest, window)
        n += 1
for b in bad[:20]:
    print('VIOLATED', b)
print('bounded: %d transfers, sizes %d..%d step %d, windows 1/3/255 + BAM: %s' % (n, lo, hi, step, 'OK' if not bad else 'FAIL'))
sys.exit(1 if bad else 0)
