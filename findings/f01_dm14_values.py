"""Finding on Dm14Query._bytes_to_values (C17): the conversion of received bytes to values.
usage: /venv/bin/python f01_dm14_values.py [repo_root]   -> exit 0 if the property holds, 1 if violated"""
import sys
sys.path.insert(0, sys.argv[1] if len(sys.argv) > 1 else '/repo')
from j1939.Dm14Query import Dm14Query

bad = []
q = Dm14Query.__new__(Dm14Query)
for size, signed, raw, want in ((1, False, [1, 2, 3], [1, 2, 3]), (2, False, [0x34, 0x12, 0x78, 0x56], [0x1234, 0x5678]),
                                (2, True, [0xFF, 0xFF, 0x01, 0x00], [-1, 1]), (4, False, [1, 0, 0, 0, 2, 0, 0, 0], [1, 2])):
    q.object_byte_size, q.signed = size, signed
    got = q._bytes_to_values(bytearray(raw))
    if got != want:
        bad.append('bytes %r as %d-byte %s objects -> %r, expected %r' % (raw, size, 'signed' if signed else 'unsigned', got, want))
    q.object_byte_size = size
    if not signed and list(q._values_to_bytes(want)) != raw:
        bad.append('values %r -> bytes %r, expected %r' % (want, list(q._values_to_bytes(want)), raw))
for b in bad:
    print('VIOLATED', b)
print('OK' if not bad else 'FAIL')
sys.exit(1 if bad else 0)
