"""Findings on the J1939-22 (CAN FD) link layer: session-number pools, stray CTS, wake-ups, destination filter, BAM PGN
(C10, C07, C02, C11/C06, C05, C03).  Drives the real J1939_22 object directly (no threads): stub bus, manual calls of the
background pass.
usage: /venv/bin/python f07_fd_sessions_j22.py [repo_root] [case]   -> exit 0 if the property holds, 1 if violated
cases: peer_release | idx | abort_leak | bam_dup | mpg_wake | pdu2_filter | bam_ps | cts_spin | retransmit | eoms_early | eoma_bam | all"""
import sys
sys.path.insert(0, sys.argv[1] if len(sys.argv) > 1 else '/repo')
import time
from j1939.j1939_22 import J1939_22
from j1939.message_id import MessageId

case = sys.argv[2] if len(sys.argv) > 2 else 'all'
bad = []
FEFF = 3


def make(accept=lambda dest: dest == 0x90):
    sent, wakes, got = [], [], []
    dll = J1939_22(lambda cid, ext, data, fd_format=False: sent.append((cid, list(data))), lambda: wakes.append(1),
                   lambda *a: got.append(a), 255, None, None, accept)
    return dll, sent, wakes, got


def cm_mid(sa):
    return MessageId(priority=7, parameter_group_number=0x4D00, source_address=sa)


def cm(ctl, session, size, seg, b7, b8, pgn):
    return [ctl | (session << 4), size & 255, (size >> 8) & 255, (size >> 16) & 255, seg & 255, (seg >> 8) & 255, (seg >> 16) & 255,
            b7, b8, pgn & 255, (pgn >> 8) & 255, (pgn >> 16) & 255]


if case in ('peer_release', 'all'):
    # we (0x90) run a transfer to 0x20 with our session number 0; meanwhile 0x20 runs one to us, also numbered 0 (its own
    # pool).  When the inbound transfer ends we release *our* number 0 although our session still uses it: the next
    # send_pgn to 0x20 takes number 0 again and overwrites the session in flight.
    dll, sent, wakes, got = make()
    assert dll.send_pgn(0, 0xD0, 0x20, 6, 0x90, list(range(100)), 0, FEFF)
    first = dict(dll._snd_buffer)
    dll._process_tp_cm(cm_mid(0x20), 0x90, cm(0, 0, 61, 2, 255, 0, 0xD100), 0.0)          # RTS 0x20 -> 0x90, session 0
    dll._process_tp_dt(MessageId(priority=7, parameter_group_number=0x4E00, source_address=0x20), 0x90, [0, 1, 0, 0] + [1] * 60, 0.0)
    dll._process_tp_dt(MessageId(priority=7, parameter_group_number=0x4E00, source_address=0x20), 0x90, [0, 2, 0, 0] + [1], 0.0)
    dll._process_tp_cm(cm_mid(0x20), 0x90, cm(2, 0, 61, 2, 0, 0, 0xD100), 0.0)            # EOM status
    ok2 = dll.send_pgn(0, 0xD0, 0x20, 6, 0x90, list(range(70)), 0, FEFF)
    if ok2 and len(dll._snd_buffer) < 2:
        bad.append('peer_release: second accepted send_pgn re-used session number 0 and replaced the session in flight '
                   '(%d send session for 2 accepted messages)' % len(dll._snd_buffer))

if case in ('idx', 'all'):
    # RTS carrying session number 9 (legal on the wire: 4 bits), then silence: the time-out path indexes the 8-entry pool
    dll, sent, wakes, got = make()
    dll._process_tp_cm(cm_mid(0x20), 0x90, cm(0, 9, 100, 2, 255, 0, 0xD100), 0.0)
    try:
        dll.async_job_thread(time.time() + 5.0)
    except IndexError as e:
        bad.append('idx: background pass raises IndexError (%s) on the time-out of a receive session numbered 9: job thread dies' % e)

if case in ('abort_leak', 'all'):
    dll, sent, wakes, got = make()
    for i in range(8):
        assert dll.send_pgn(0, 0xD0, 0x20, 6, 0x90, list(range(100)), 0, FEFF)
        dll._process_tp_cm(cm_mid(0x20), 0x90, cm(15, i, 0xFFFFFF, 0xFFFFFF, 0xFF, 1, 0xD000), 0.0)    # peer aborts
        dll.async_job_thread(time.time() + 0.01)
    if dll._snd_buffer == {} and not dll.send_pgn(0, 0xD0, 0x20, 6, 0x90, list(range(100)), 0, FEFF):
        bad.append('abort_leak: no send session open, yet send_pgn is refused: 8 peer aborts leaked all 8 session numbers')

if case in ('bam_dup', 'all'):
    dll, sent, wakes, got = make()
    dll._process_tp_cm(cm_mid(0x20), 255, cm(4, 1, 100, 2, 255, 0, 0xFEF1), 0.0)
    try:
        dll._process_tp_cm(cm_mid(0x20), 255, cm(4, 1, 100, 2, 255, 0, 0xFEF1), 0.0)
    except KeyError as e:
        bad.append('bam_dup: a repeated BAM announce raises KeyError(%s) in the receive path' % e)

if case in ('mpg_wake', 'all'):
    dll, sent, wakes, got = make()
    dll.send_pgn(0, 0xFE, 0xF1, 6, 0x90, [1, 2, 3], 0.05, FEFF)
    if not wakes and not sent:
        bad.append('mpg_wake: group with time_limit 50 ms buffered but the background thread is not woken: it is sent at the '
                   'next regular wake-up (up to 5 s later)')

if case in ('pdu2_filter', 'all'):
    dll, sent, wakes, got = make()
    dll.notify(0x18FEF110, [1, 2, 3, 4, 5, 6, 7, 8], 0.0)       # PDU2 PGN 0xFEF1 (broadcast by definition), group extension 0x10...
    if not got:
        bad.append('pdu2_filter: broadcast PGN 0xFEF1 from 0x10 not delivered (PS of a PDU2 identifier treated as a destination address)')

if case in ('bam_ps', 'all'):
    dll, sent, wakes, got = make()
    dll.send_pgn(0, 0xD0, 0xFF, 6, 0x90, list(range(100)), 0, FEFF)
    pgn = sent[0][1][9] | (sent[0][1][10] << 8) | (sent[0][1][11] << 16)
    if pgn != 0xD000:
        bad.append('bam_ps: FD BAM announces PDU1 PGN as 0x%06X (destination left in the PS octet), single frames carry 0x00D000' % pgn)

if case in ('cts_spin', 'all'):
    # 100 octets = 2 segments; the peer's CTS asks for segment 3: nothing to send, the session keeps an expired deadline
    dll, sent, wakes, got = make()
    dll.send_pgn(0, 0xD0, 0x20, 6, 0x90, list(range(100)), 0, FEFF)
    dll._process_tp_cm(cm_mid(0x20), 0x90, cm(1, 0, 0xFFFFFF, 3, 1, 0, 0xD000), 0.0)
    now = time.time()
    try:
        wake = dll.async_job_thread(now)
        if wake <= now:
            bad.append('cts_spin: pass returned a wake-up in the past (%.3f s before now): background thread busy-spins' % (now - wake))
        dll.async_job_thread(now + 10)
        if dll._snd_buffer:
            bad.append('cts_spin: session still present 10 s later (never released)')
    except Exception as e:
        bad.append('cts_spin: background pass raises %r' % e)

if case in ('retransmit', 'all'):
    # the responder may ask for a segment again (CTS naming an earlier segment, e.g. after a corrupted frame):
    # the second transmission must be the same frame as the first
    dll, sent, wakes, got = make()
    dll.send_pgn(0, 0xD0, 0x20, 6, 0x90, list(range(100)), 0, FEFF)
    frames = []
    for _ in range(2):
        dll._process_tp_cm(cm_mid(0x20), 0x90, cm(1, 0, 0xFFFFFF, 1, 1, 0, 0xD000), 0.0)      # CTS: one segment, starting at 1
        n = len(sent)
        dll.async_job_thread(time.time() + 0.001)
        frames.append(sent[n:])
    if frames[0] != frames[1]:
        bad.append('retransmit: segment 1 sent again on request differs from its first transmission: %r... vs %r...'
                   % (frames[0][0][1][:8] if frames[0] else None, frames[1][0][1][:8] if frames[1] else None))

if case in ('eoms_early', 'all'):
    # broadcast of 130 octets = 3 segments; segment 2 is lost on the bus.  Segment 3 is rejected (out of order), but the
    # end-of-message status (sizes match the announce) makes the receiver deliver the 60 octets it has
    dll, sent, wakes, got = make()
    dt = MessageId(priority=7, parameter_group_number=0x4E00, source_address=0x20)
    dll._process_tp_cm(cm_mid(0x20), 255, cm(4, 1, 130, 3, 255, 0, 0xFEF1), 0.0)              # BAM
    dll._process_tp_dt(dt, 255, [0x10, 1, 0, 0] + [1] * 60, 0.0)
    dll._process_tp_dt(dt, 255, [0x10, 3, 0, 0] + [3] * 10 + [255] * 2, 0.0)                    # segment 2 lost
    dll._process_tp_cm(cm_mid(0x20), 255, cm(2, 1, 130, 3, 0, 0, 0xFEF1), 0.0)                # EOM status
    if got and len(got[0][5]) != 130:
        bad.append('eoms_early: a message of 130 octets with one segment lost is delivered truncated (%d octets)' % len(got[0][5]))

if case in ('eoma_bam', 'all'):
    # an end-of-message acknowledge from the (illegal) source address 255 addressed to us hits our broadcast session
    # (key (session, 0x90, 255)): the session is closed early and its number goes to the wrong pool
    leaked = 0
    dll, sent, wakes, got = make()
    for i in range(4):
        assert dll.send_pgn(0, 0xFE, 0xF1, 6, 0x90, list(range(100)), 0, FEFF)
        dll._process_tp_cm(cm_mid(255), 0x90, cm(3, i, 100, 2, 255, 255, 0xFEF1), 0.0)
        dll.async_job_thread(time.time() + 0.001)
    if dll._snd_buffer == {} and not dll.send_pgn(0, 0xFE, 0xF1, 6, 0x90, list(range(100)), 0, FEFF):
        bad.append('eoma_bam: stray end-of-message acknowledges closed 4 broadcast sessions and leaked their numbers: '
                   'no broadcast session open, yet send_pgn refuses')

for b in bad:
    print('VIOLATED', b)
print('OK' if not bad else 'FAIL')
sys.exit(1 if bad else 0)
