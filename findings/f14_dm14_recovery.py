"""Findings on DM14 recovery after a failed operation (C18).  Object level, no threads: a stub controller application
records subscriptions and frames.
usage: /venv/bin/python f14_dm14_recovery.py [repo_root] [case]   -> exit 0 if the property holds, 1 if violated
cases: wrong_key | facade_exc | all"""
import sys
sys.path.insert(0, sys.argv[1] if len(sys.argv) > 1 else '/repo')
import j1939
from j1939.memory_access import MemoryAccess, DMState

case = sys.argv[2] if len(sys.argv) > 2 else 'all'
bad = []


class StubCA:
    def __init__(self):
        self.subs, self.sent = [], []

    def subscribe(self, cb):
        self.subs.append(cb)

    def unsubscribe(self, cb):
        self.subs = [s for s in self.subs if s != cb]

    def send_pgn(self, dp, pf, ps, prio, data):
        self.sent.append((pf, ps, list(data)))
        return True


DM14 = 0xD900
if case in ('wrong_key', 'all'):
    # server with seed/key: a client returns a wrong key and is told so; afterwards a new, well-formed request must be served
    ca = StubCA()
    ma = MemoryAccess(ca)
    ma.set_seed_key_algorithm(lambda seed: (~seed) & 0xFFFF)
    ma.set_seed_generator(lambda: 0x1234)
    asked = []
    ma.set_proceed(lambda *a: asked.append(a) or True)
    ma.set_notify(lambda: None)
    req = [0x01, 0x13, 0x03, 0x00, 0x00, 0x92, 0x07, 0x00]
    ma._listen_for_dm14(6, DM14, 0xF9, 0.0, bytearray(req))                                   # request -> seed
    ma._listen_for_dm14(6, DM14, 0xF9, 0.0, bytearray(req[:6] + [0x00, 0x00]))                # wrong key -> error
    n = len(ca.sent)
    ma._listen_for_dm14(6, DM14, 0xF9, 0.0, bytearray(req))                                   # new request
    if asked:
        bad.append('wrong_key: the application was consulted although the key was wrong')
    if len(ca.sent) == n:
        bad.append('wrong_key: after a wrong key the server answers no further request (server state %s, requester %r): '
                   'a new DM14 gets no seed' % (ma.server.state.name, ma.server.sa))

if case in ('facade_exc', 'all'):
    # the client facade: a query that fails with an exception (no response from the server) must leave the facade usable
    ca = StubCA()
    ma = MemoryAccess(ca)
    try:
        ma.read(0xD4, 1, 0x92000003, 1, max_timeout=0.01)
    except RuntimeError:
        pass
    try:
        ma.read(0xD4, 1, 0x92000003, 1, max_timeout=0.01)
    except RuntimeWarning as e:
        bad.append('facade_exc: after a failed read the facade refuses every further operation: %s (state %s)' % (e, ma.state.name))
    except RuntimeError:
        pass
    ca = StubCA()
    ma = MemoryAccess(ca)
    try:
        ma.write(0xD4, 1, 0x92000003, [1], max_timeout=0.01)
    except RuntimeError:
        pass
    if ma.state is not DMState.IDLE:
        bad.append('facade_exc: after a failed write the facade stays in %s: later reads raise, later writes are silently dropped' % ma.state.name)

for b in bad:
    print('VIOLATED', b)
print('OK' if not bad else 'FAIL')
sys.exit(1 if bad else 0)
