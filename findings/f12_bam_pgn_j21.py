"""Finding 12 (C03/C01): J1939-21 BAM announces a PDU1 PGN with PS=0xFF instead of 0.
usage: /venv/bin/python f12_bam_pgn_j21.py [repo_root]   -> exit 0 if the property holds, 1 if violated"""
import sys
sys.path.insert(0, sys.argv[1] if len(sys.argv) > 1 else '/repo')
import j1939
sent = []
ecu = j1939.ElectronicControlUnit(send_message=lambda cid, ext, data, fd_format=False: sent.append((cid, list(data))))
try:
    ecu.send_pgn(0, 0xD0, 0xFF, 6, 0x90, list(range(20)))
finally:
    ecu.stop()
d = sent[0][1]
pgn = d[5] | d[6] << 8 | d[7] << 16
print('BAM announces PGN %#x for send_pgn(0, 0xD0, 0xFF, ...)' % pgn)
sys.exit(0 if pgn == 0xD000 else 1)
