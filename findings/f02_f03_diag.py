"""Findings 2 and 3 (C16): DM22 request drops SPN bits 16..18; Dm1.stop_send removes nothing.
usage: /venv/bin/python f02_f03_diag.py [repo_root] [dm22|stop|all] -> exit 0 if the property holds, 1 if violated"""
import sys
sys.path.insert(0, sys.argv[1] if len(sys.argv) > 1 else '/repo')
import j1939
case = sys.argv[2] if len(sys.argv) > 2 else 'all'
bad = []


class FakeCA:
    def __init__(self):
        self.sent = []
        self.timers = []

    def send_pgn(self, *a):
        self.sent.append(a)

    def add_timer(self, delta_time, callback, cookie=None):
        self.timers.append({'delta_time': delta_time, 'callback': callback, 'cookie': cookie})

    def remove_timer(self, callback):
        self.timers = [t for t in self.timers if t['callback'] != callback]


if case in ('dm22', 'all'):
    ca = FakeCA()
    j1939.Dm22(ca).request_clear_act_dtc(0x20, spn=0x7FFFF, fmi=31)
    data = ca.sent[0][4]
    spn = data[5] | data[6] << 8 | (data[7] >> 5) << 16
    if spn != 0x7FFFF or (data[7] & 0x1F) != 31:
        bad.append('dm22: request for SPN 0x7FFFF carries SPN %#x (octet 8 = %#x)' % (spn, data[7]))

if case in ('stop', 'all'):
    ca = FakeCA()
    dm1 = j1939.Dm1(ca)
    cb = lambda: ({}, [])
    dm1.start_send(cb, 1)
    dm1.stop_send(cb)
    if ca.timers:
        bad.append('stop: after start_send(cb); stop_send(cb) the cyclic DM1 timer is still registered (%d registrations)' % len(ca.timers))

for b in bad:
    print('VIOLATED', b)
print('OK' if not bad else 'FAIL')
sys.exit(1 if bad else 0)
