"""Findings on J1939-21 CTS / abort handling (C07, C09, C06).  Drives the real J1939_21 object directly
(no threads): stub bus, manual calls of the background pass.
usage: /venv/bin/python f06_cts_handling_j21.py [repo_root] [case]   -> exit 0 if the property holds, 1 if violated
cases: spin | bam_cts | abort_wake | all"""
import sys
sys.path.insert(0, sys.argv[1] if len(sys.argv) > 1 else '/repo')
import time
from j1939.j1939_21 import J1939_21
from j1939.message_id import MessageId

case = sys.argv[2] if len(sys.argv) > 2 else 'all'
bad = []


def make():
    sent, wakes = [], []
    dll = J1939_21(lambda cid, ext, data: sent.append((cid, list(data))), lambda: wakes.append(1), lambda *a: None, 1, None, None,
                   lambda dest: False)
    return dll, sent, wakes


def mid(sa):
    return MessageId(priority=7, parameter_group_number=0xEC00, source_address=sa)


if case in ('spin', 'all'):
    # 9-byte message 0x90 -> 0x20, window 1: RTS, CTS(1), DT1, CTS(1), DT2; EOM-ACK lost; one more CTS arrives
    dll, sent, wakes = make()
    dll.send_pgn(0, 0xD0, 0x20, 6, 0x90, list(range(9)), 0, 3)
    for nxt in (1, 2):
        dll._process_tp_cm(mid(0x20), 0x90, [17, 1, nxt, 255, 255, 0, 0xD0, 0], 0.0)
        dll.async_job_thread(time.time())
    dll._process_tp_cm(mid(0x20), 0x90, [17, 1, 1, 255, 255, 0, 0xD0, 0], 0.0)     # CTS after the last packet
    now = time.time()
    wake = dll.async_job_thread(now)
    later = now + 10.0
    dll.async_job_thread(later)
    if wake <= now:
        bad.append('spin: pass returned a wake-up in the past (%.3f s before now): background thread busy-spins' % (now - wake))
    if dll._snd_buffer:
        bad.append('spin: session still present 10 s later, send_pgn on this pair refused for ever: %r'
                   % dll.send_pgn(0, 0xD0, 0x20, 6, 0x90, list(range(9)), 0, 3))

if case in ('bam_cts', 'all'):
    # a CTS from the (illegal) source address 255 addressed to us hits our broadcast session (key (0x90, 255)):
    # the BAM session is switched to burst mode and its packets go out back to back instead of one per 50 ms
    dll, sent, wakes = make()
    dll.send_pgn(0, 0xFE, 0xB0, 6, 0x90, list(range(40)), 0, 3)
    dll._process_tp_cm(mid(255), 0x90, [17, 6, 1, 255, 255, 0xB0, 0xFE, 0], 0.0)
    n = len(sent)
    dll.async_job_thread(time.time() + 1.0)
    if len(sent) - n > 1:
        bad.append('bam_cts: %d broadcast data packets sent in one pass (no 50 ms spacing) after a stray CTS' % (len(sent) - n))

if case in ('abort_wake', 'all'):
    dll, sent, wakes = make()
    dll.send_pgn(0, 0xD0, 0x20, 6, 0x90, list(range(9)), 0, 3)
    n = len(wakes)
    dll._process_tp_cm(mid(0x20), 0x90, [255, 1, 255, 255, 255, 0, 0xD0, 0], 0.0)     # peer aborts
    if len(wakes) == n:
        bad.append('abort_wake: session finished by a peer abort but the background thread is not woken (released only at its old T3 wake-up)')

for b in bad:
    print('VIOLATED', b)
print('OK' if not bad else 'FAIL')
sys.exit(1 if bad else 0)
