"""Findings on DM14 memory access (C17, C18): 8-octet read, stale transport acknowledge, listener leak (all repaired).
Two real ElectronicControlUnits wired back to back through an in-process bus (threads: the ECUs' own job threads, one bus
thread, one thread for the serving application).
usage: /venv/bin/python f13_dm14_transactions.py [repo_root] [case]   -> exit 0 if the property holds, 1 if violated
cases: read8 | stale_ack | second_write | all"""
import sys
sys.path.insert(0, sys.argv[1] if len(sys.argv) > 1 else '/repo')
import queue
import threading
import time
import j1939

case = sys.argv[2] if len(sys.argv) > 2 else 'all'
bad = []
CLIENT, SERVER, ADDRESS = 0xF9, 0xD4, 0x92000003


class Bus:
    def __init__(self):
        self.q, self.ecus, self.errors = queue.Queue(), [], []
        threading.Thread(target=self._run, daemon=True).start()

    def sender(self, idx):
        return lambda can_id, ext, data, fd_format=False: self.q.put((idx, can_id, list(data)))

    def _run(self):
        while True:
            item = self.q.get()
            if item is None:
                return
            idx, can_id, data = item
            for i, ecu in enumerate(self.ecus):
                if i != idx:
                    try:
                        ecu.notify(can_id, data, time.time())
                    except Exception as ex:
                        self.errors.append(repr(ex))


def make_pair():
    bus, cas = Bus(), []
    for idx, addr in enumerate((CLIENT, SERVER)):
        ecu = j1939.ElectronicControlUnit(send_message=bus.sender(idx), max_cmdt_packets=255)
        bus.ecus.append(ecu)
        ca = j1939.ControllerApplication(None, addr, True)
        ecu.add_ca(controller_application=ca)
        cas.append(ca)
    client, server = j1939.MemoryAccess(cas[0]), j1939.MemoryAccess(cas[1])
    server.set_proceed(lambda *a: True)
    return bus, client, server


def serve(server, notified, data, out):
    def run():
        if notified.wait(3):
            notified.clear()
            try:
                out.append(server.respond(True, list(data), 0xFFFF, 0xFF))
            except Exception as ex:
                out.append('respond() raised %r' % (ex,))
    t = threading.Thread(target=run)
    t.start()
    return t


def stop(bus):
    for ecu in bus.ecus:
        ecu.stop()
    bus.q.put(None)


if case in ('read8', 'all'):
    # a read of exactly 8 data octets: the 9-octet DM16 goes over the transport protocol, the server sends its
    # 'operation complete' DM15 at once, the client is not yet listening for it
    bus, client, server = make_pair()
    notified = threading.Event()
    server.set_notify(notified.set)
    memory = list(range(1, 9))
    t = serve(server, notified, memory, [])
    try:
        res = list(client.read(SERVER, 1, ADDRESS, 8, return_raw_bytes=True, max_timeout=2))
    except Exception as ex:
        res = 'raised %r' % (ex,)
    t.join()
    if res != memory:
        bad.append('read8: read of 8 octets returned %r, expected %r' % (res, memory))
    stop(bus)

if case in ('stale_ack', 'all'):
    # after a multi-packet read the server's data queue keeps the transport acknowledge; the next write hands it to the
    # serving application instead of the written octets
    bus, client, server = make_pair()
    notified = threading.Event()
    server.set_notify(notified.set)
    t = serve(server, notified, list(range(20)), [])
    try:
        client.read(SERVER, 1, ADDRESS, 20, return_raw_bytes=True, max_timeout=2)
    except Exception:
        pass
    t.join()
    time.sleep(0.3)
    got = []
    t = serve(server, notified, [], got)
    try:
        client.write(SERVER, 1, ADDRESS, [0xAA, 0xBB, 0xCC], max_timeout=2)
    except Exception as ex:
        got.append('write raised %r' % (ex,))
    t.join()
    if not got or got[0] is None or list(got[0]) != [0xAA, 0xBB, 0xCC]:
        bad.append('stale_ack: the serving application was handed %r for a write of [0xAA, 0xBB, 0xCC] after a 20-octet read'
                   % (list(got[0]) if got and isinstance(got[0], (list, bytearray)) else got,))
    stop(bus)

if case in ('second_write', 'all'):
    # two writes back to back with the same client object: _parse_dm15 is subscribed a second time and never unsubscribed
    bus, client, server = make_pair()
    notified = threading.Event()
    server.set_notify(notified.set)
    outcome = []
    for k in (1, 2):
        got = []
        t = serve(server, notified, [], got)
        try:
            client.write(SERVER, 1, ADDRESS, [k, k + 1], max_timeout=2)
            outcome.append(('ok', got))
        except Exception as ex:
            outcome.append(('raised %r' % (ex,), got))
        t.join()
        time.sleep(0.3)
    if outcome[1][0] != 'ok' or bus.errors:
        bad.append('second_write: second write on the same client: %s; exceptions in the receive path: %r' % (outcome[1][0], bus.errors[:2]))
    stop(bus)

for b in bad:
    print('VIOLATED', b)
print('OK' if not bad else 'FAIL')
sys.exit(1 if bad else 0)
