"""Findings 4 and 5 (C12): remove_timer / unsubscribe leave adjacent duplicate registrations; an expiring one-shot timer
makes the background pass skip the next timer.   Real ECU object, no bus.
usage: /venv/bin/python f04_f05_timers.py [repo_root] [dups|skip|all] -> exit 0 if the property holds, 1 if violated"""
import sys, time
sys.path.insert(0, sys.argv[1] if len(sys.argv) > 1 else '/repo')
import j1939
case = sys.argv[2] if len(sys.argv) > 2 else 'all'
bad = []

if case in ('dups', 'all'):
    ecu = j1939.ElectronicControlUnit()
    try:
        cb = lambda cookie: True
        for _ in range(3):
            ecu.add_timer(100.0, cb)
        ecu.remove_timer(cb)
        left = len([e for e in ecu._timer_events if e['callback'] == cb])
        if left:
            bad.append('dups: remove_timer(cb) left %d of 3 registrations of cb' % left)
        sub = lambda *a: None
        for _ in range(3):
            ecu.subscribe(sub)
        ecu.unsubscribe(sub)
        left = len([d for d in ecu._subscribers if d['cb'] == sub])
        if left:
            bad.append('dups: unsubscribe(cb) left %d of 3 registrations of cb' % left)
    finally:
        ecu.stop()

if case in ('skip', 'all'):
    ecu = j1939.ElectronicControlUnit()
    try:
        fired = []
        t0 = time.time()
        ecu.add_timer(0.2, lambda c: False)                                  # one-shot
        ecu.add_timer(0.21, lambda c: fired.append(time.time() - t0) or True)  # periodic, registered right after it
        time.sleep(1.0)
        if not fired or fired[0] > 0.6:
            bad.append('skip: periodic timer due at 0.21 s first fired at %s (skipped by the pass that removed the one-shot before it)'
                       % (('%.2f s' % fired[0]) if fired else 'not within 1 s'))
    finally:
        ecu.stop()

for b in bad:
    print('VIOLATED', b)
print('OK' if not bad else 'FAIL')
sys.exit(1 if bad else 0)
