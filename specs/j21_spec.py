# SAE J1939-21 transport protocol: frame layouts and session vocabulary (independent statement).
#
# TP.CM  PGN 0xEC00 (PF 236), TP.DT PGN 0xEB00 (PF 235); destination in PS; default priority 7.
# TP.CM data: octet 1 control, octets 6..8 PGN of the packeted message, little endian.
#   RTS  16: 2-3 total size (LE16), 4 number of packets, 5 max packets per CTS
#   CTS  17: 2 packets that may be sent, 3 next packet number, 4-5 0xFF
#   EOM  19: 2-3 total size, 4 number of packets, 5 0xFF
#   BAM  32: 2-3 total size, 4 number of packets, 5 0xFF
#   ABORT 255: 2 reason, 3-5 0xFF
# TP.DT data: octet 1 sequence number (1-based), octets 2..8 seven data octets, unused ones 0xFF.

CM_RTS = 16
CM_CTS = 17
CM_EOM_ACK = 19
CM_BAM = 32
CM_ABORT = 255

S21_WAITING_CTS = 0
S21_SENDING_IN_CTS = 1
S21_SENDING_BM = 2
S21_FINISHED = 3

T1 = 0.75
T2 = 1.25
T3 = 1.25
TH = 0.5
TB_DEFAULT = 0.05

ABORT_BUSY = 1
ABORT_RESOURCES = 2
ABORT_TIMEOUT = 3


def hash21(src, dest):
    return bits(src, 0, 8) * 256 + bits(dest, 0, 8)


def ceil7(n):
    return (n + 6) // 7


def tp_cm_id(priority, dest, src):
    return can_id_of(priority, 0xEC00 + bits(dest, 0, 8), src)


def tp_dt_id(dest, src):
    return can_id_of(7, 0xEB00 + bits(dest, 0, 8), src)


def pgn_in_cm(dp, pf, ps):
    # PGN field of a TP.CM: for PDU1 PGNs (PF < 240) the PS octet of the PGN is 0
    return ite(bits(pf, 0, 8) < 240, pgn_value_of(dp, pf, 0), pgn_value_of(dp, pf, ps))


def cm_rts(size, npk, maxp, pgn):
    return [CM_RTS, le_octet(size, 0), le_octet(size, 1), npk, maxp, le_octet(pgn, 0), le_octet(pgn, 1), le_octet(pgn, 2)]


def cm_cts(n, nxt, pgn):
    return [CM_CTS, n, nxt, 255, 255, le_octet(pgn, 0), le_octet(pgn, 1), le_octet(pgn, 2)]


def cm_eom_ack(size, npk, pgn):
    return [CM_EOM_ACK, le_octet(size, 0), le_octet(size, 1), npk, 255, le_octet(pgn, 0), le_octet(pgn, 1), le_octet(pgn, 2)]


def cm_bam(size, npk, pgn):
    return [CM_BAM, le_octet(size, 0), le_octet(size, 1), npk, 255, le_octet(pgn, 0), le_octet(pgn, 1), le_octet(pgn, 2)]


def cm_abort(reason, pgn):
    return [CM_ABORT, reason, 255, 255, 255, le_octet(pgn, 0), le_octet(pgn, 1), le_octet(pgn, 2)]


def is_sent(ev, send, can_id, data):
    # one call send_message(can_id, True, data) (classic frame: no fd_format argument)
    return ev.fn == send and ev.n == 3 and ev.i0 == can_id and ev.b1 == True and ev.l2 == data


def dt_octet(payload, size, k, i):
    # i-th data octet (0..6) of the k-th packet (0-based): payload octet or 0xFF beyond the message
    return ite(7 * k + i < size, payload[7 * k + i], 255)


def is_dt_hdr(ev, send, dest, src, k):
    # TP.DT number k+1 of a session: identifier and sequence number (content: is_dt)
    return (ev.fn == send and ev.n == 3 and ev.i0 == tp_dt_id(dest, src) and ev.b1 == True and len(ev.l2) == 8
            and ev.l2[0] == k + 1)


def is_dt(ev, send, dest, src, payload, size, k):
    # TP.DT number k+1 of a message: sequence number then seven octets
    return (ev.fn == send and ev.n == 3 and ev.i0 == tp_dt_id(dest, src) and ev.b1 == True and len(ev.l2) == 8
            and ev.l2[0] == k + 1
            and forall(lambda i: ev.l2[1 + i] == dt_octet(payload, size, k, i), 0, 7))


# ------------------------------------------------------------------ class invariant of J1939_21 (DESIGN appendix A)

def snd21_ok(k, r):
    return (has_keys(r, 'pgn', 'priority', 'message_size', 'num_packages', 'data', 'state', 'deadline', 'src_address',
                     'dest_address', 'next_packet_to_send')
            and k == hash21(r['src_address'], r['dest_address'])
            and 0 <= r['src_address'] and r['src_address'] <= 255 and 0 <= r['dest_address'] and r['dest_address'] <= 255
            and r['message_size'] == len(r['data']) and 9 <= r['message_size'] and r['message_size'] <= 1785
            and r['num_packages'] == ceil7(r['message_size'])
            and 0 <= r['next_packet_to_send'] and r['next_packet_to_send'] <= r['num_packages']
            and 0 <= r['state'] and r['state'] <= 3
            and 0 <= r['pgn'] and r['pgn'] < 2 ** 18
            and r['deadline'] > 0
            and implies(r['state'] == S21_SENDING_BM, r['dest_address'] == 255 and r['next_packet_to_send'] < r['num_packages'])
            and implies(r['dest_address'] != 255, has_key(r, 'next_wait_on_cts'))
            and implies(r['state'] == S21_WAITING_CTS or r['state'] == S21_SENDING_IN_CTS, r['dest_address'] != 255)
            # the payload list is never a reassembly buffer of a receive session (those are extended in place)
            and not has_key(owner(r['data']), 'next_packet') and not has_key(r, 'next_packet'))


def rcv21_ok(k, r):
    return (has_keys(r, 'pgn', 'message_size', 'num_packages', 'next_packet', 'max_cmdt_packages', 'data', 'deadline',
                     'src_address', 'dest_address')
            and k == hash21(r['src_address'], r['dest_address'])
            and 0 <= r['src_address'] and r['src_address'] <= 255 and 0 <= r['dest_address'] and r['dest_address'] <= 255
            and 0 <= r['pgn'] and r['pgn'] < 2 ** 24
            and 0 <= r['message_size'] and r['message_size'] < 65536
            and 0 <= r['num_packages'] and r['num_packages'] <= 255
            and r['deadline'] > 0
            # a buffer that reaches the announced size is delivered and removed in the same call
            and (len(r['data']) == 0 or len(r['data']) < r['message_size'])
            # the reassembly buffer is owned by its session (it is extended in place)
            and owner(r['data']) == r)


def inv21(dll):
    return (cfg21_ok(dll)
            and no_alias(dll._snd_buffer, dll._rcv_buffer)
            and keys_forall(dll._snd_buffer, lambda k, r: snd21_ok(k, r))
            and keys_forall(dll._rcv_buffer, lambda k, r: rcv21_ok(k, r)))
