# Specification vocabulary for ControllerApplication (J1939-81 address claiming, requests)

ST_NONE = 0
ST_WAIT_VETO = 1
ST_NORMAL = 2
ST_CANNOT_CLAIM = 3

ADDR_NULL = 254
ADDR_GLOBAL = 255
PGN_ADDRESSCLAIM = 0xEE00
PGN_REQUEST = 0xEA00


def name_ok(n):
    return (name_in_range(n.arbitrary_address_capable, n.industry_group, n.vehicle_system_instance, n.vehicle_system,
                          n.function, n.function_instance, n.ecu_instance, n.manufacturer_code, n.identity_number)
            and n.reserved_bit == 0)


def name_value(n):
    # the 64-bit NAME value at the J1939-81 bit positions (the reserved bit is 0 by name_ok)
    return name_value_of(n.arbitrary_address_capable, n.industry_group, n.vehicle_system_instance, n.vehicle_system,
                         n.reserved_bit, n.function, n.function_instance, n.ecu_instance, n.manufacturer_code,
                         n.identity_number)


def inv_ca(ca):
    # class invariant of a controller application
    return (0 <= ca._device_address_state and ca._device_address_state <= 3
            and 0 <= ca._device_address_announced
            and implies(ca._device_address_state == ST_NORMAL,
                        not is_none(ca._device_address) and ca._device_address == ca._device_address_announced)
            and name_ok(ca._name))


def holds_address(ca):
    return ca._device_address_state == ST_NORMAL


def is_raw_frame(ev, ecu, can_id):
    # one call of ecu.send_message(can_id, True, data)
    return ev.fn == fn("ElectronicControlUnit.send_message") and ev.a0 == ecu and ev.a1 == can_id and ev.a2 == True


def is_claim_frame(ev, ca, name_val, address):
    # address-claimed (or cannot-claim, address 254) frame: PGN 0xEE00 to the global address, priority 6,
    # 8 data octets = NAME, little endian
    return (is_raw_frame(ev, ca._ecu, can_id_of(6, PGN_ADDRESSCLAIM + ADDR_GLOBAL, address))
            and len(ev.a3) == 8 and forall(lambda i: ev.a3[i] == le_octet(name_val, i), 0, 8))


def is_timer_ev(ev, ca, delay):
    return (ev.fn == fn("ElectronicControlUnit.add_timer") and ev.a0 == ca._ecu and ev.a1 == delay
            and ev.a2 == method(ca, "_process_claim_async"))


def is_send_pgn_ev(ev, ecu, dp, pf, ps, prio, sa):
    return (ev.fn == fn("ElectronicControlUnit.send_pgn") and ev.a0 == ecu and ev.a1 == dp and ev.a2 == pf
            and ev.a3 == ps and ev.a4 == prio and ev.a5 == sa)


def inv_ecu(ecu):
    # well-formed listener and timer records; every registration is a dict object of its own
    return (forall(lambda j: has_key(ecu._subscribers[j], 'cb') and has_key(ecu._subscribers[j], 'dev_adr'), 0, len(ecu._subscribers))
            and forall(lambda j: has_key(ecu._timer_events[j], 'callback') and has_key(ecu._timer_events[j], 'deadline')
                       and has_key(ecu._timer_events[j], 'delta_time') and has_key(ecu._timer_events[j], 'cookie'),
                       0, len(ecu._timer_events))
            and forall(lambda a, b: implies(0 <= a and a < b and b < len(ecu._timer_events), ecu._timer_events[a] != ecu._timer_events[b]))
            and forall(lambda a, b: implies(0 <= a and a < b and b < len(ecu._subscribers), ecu._subscribers[a] != ecu._subscribers[b]))
            and no_alias(ecu._timer_events, ecu._subscribers))
