# SAE J1939-73 diagnostic layouts (independent statement)
#
# DTC, 4 octets: octet 1 SPN bits 0..7 | octet 2 SPN bits 8..15 | octet 3: bits 5..7 = SPN bits 16..18, bits 0..4 = FMI |
#                octet 4: bit 7 = conversion method, bits 0..6 = occurrence count.     As LE32 number:
#   SPN low 16 bits @0, FMI 5 bits @16, SPN high 3 bits @21, OC 7 bits @24, CM 1 bit @31

LAMP_OFF = 0
LAMP_ON = 1
LAMP_SLOW = 2
LAMP_FAST = 3
LAMP_NA = 4
PGN_DM01 = 0xFECA
PGN_DM22 = 0xC300


def dtc_pack(spn, fmi, oc):
    return bits(spn, 0, 16) + bits(fmi, 0, 5) * 2 ** 16 + bits(spn, 16, 3) * 2 ** 21 + bits(oc, 0, 7) * 2 ** 24


def dtc_spn(d):
    return bits(d, 0, 16) + bits(d, 21, 3) * 2 ** 16


def dtc_fmi(d):
    return bits(d, 16, 5)


def dtc_oc(d):
    return bits(d, 24, 7)


def dtc_cm(d):
    return bits(d, 31, 1)


def dtc_octet(spn, fmi, oc, b):
    # b-th octet (0..3) of the DTC on the wire
    return ite(b == 0, bits(spn, 0, 8),
               ite(b == 1, bits(spn, 8, 8),
                   ite(b == 2, bits(spn, 16, 3) * 32 + bits(fmi, 0, 5), bits(oc, 0, 7))))


# lamp status -> (lamp bits, flash bits): 2 bits each per lamp; lamps at bit pairs 0 (protect), 2 (amber warning),
# 4 (red stop), 6 (malfunction indicator); octet 1 lamp on/off, octet 2 flash
def lamp_bits(status):
    return ite(status == LAMP_ON or status == LAMP_SLOW or status == LAMP_FAST, 1, ite(status == LAMP_NA, 3, 0))


def flash_bits(status):
    return ite(status == LAMP_SLOW, 0, ite(status == LAMP_FAST, 1, 3))


def lamp_norm(present, status):
    # a missing or illegal status counts as OFF
    return ite(present and 0 <= status and status <= 4, status, LAMP_OFF)


def lamp_decode(lamp, flash):
    return ite(lamp == 0, LAMP_OFF,
               ite(lamp == 1, ite(flash == 0, LAMP_SLOW, ite(flash == 1, LAMP_FAST, ite(flash == 3, LAMP_ON, LAMP_NA))), LAMP_NA))
