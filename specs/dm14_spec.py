# SAE J1939-73 DM14 / DM15 / DM16 memory access: layouts and value conversion, independent statement.
#
# DM14 PGN 0xD900 (PF 217), DM15 PGN 0xD800 (PF 216), DM16 PGN 0xD700 (PF 215); destination in PS; priority 6.
# DM14, 8 octets: 1 number of objects (low 8 bits); 2: bit 1 reserved (1), bits 2-4 command, bit 5 pointer type;
#   3-6 pointer (LE32, here: 24-bit pointer + 8-bit extension); 7-8 key / user level (LE16)
# DM15: 1 number allowed; 2: bit 1 reserved (1), bits 2-4 status, bit 5 pointer type(?); 3-5 error indicator (LE24);
#   6 EDCP extension; 7-8 seed (LE16)
# DM16: 1 number of octets (0xFF when more than 7), then the raw octets.
# Values <-> octets: an object of size s is s octets, little endian, two's complement when signed.

PGN_DM14 = 0xD900
PGN_DM15 = 0xD800
PGN_DM16 = 0xD700

CMD_ERASE = 0
CMD_READ = 1
CMD_WRITE = 2
CMD_OPERATION_COMPLETED = 4
CMD_OPERATION_FAILED = 5

DM15_PROCEED = 0
DM15_BUSY = 1
DM15_OPERATION_COMPLETE = 4
DM15_OPERATION_FAILED = 5


def le_unsigned(raw, off, s):
    # unsigned value of the s octets raw[off : off+s], little endian (s in 1, 2, 4, 8)
    return ite(s == 1, raw[off],
               ite(s == 2, raw[off] + raw[off + 1] * 256,
                   ite(s == 4, le4(raw[off], raw[off + 1], raw[off + 2], raw[off + 3]),
                       le8(raw[off], raw[off + 1], raw[off + 2], raw[off + 3], raw[off + 4], raw[off + 5], raw[off + 6], raw[off + 7]))))


def le_signed(raw, off, s):
    # two's complement
    return ite(le_unsigned(raw, off, s) >= pow256(s) // 2, le_unsigned(raw, off, s) - pow256(s), le_unsigned(raw, off, s))


def pow256(s):
    return ite(s == 1, 256, ite(s == 2, 65536, ite(s == 4, 2 ** 32, 2 ** 64)))


def dm14_octet1(direct, command):
    # pointer type / command / reserved bit of a DM14 (DM15: status in place of the command)
    return direct * 16 + command * 2 + 1
