# SAE J1939-22 (CAN FD): FD transport protocol and multi-PG frame layouts, independent statement.
#
# FD.TP.CM  PGN 0x4D00 (PF 77), FD.TP.DT PGN 0x4E00 (PF 78), multi-PG PGN 0x2500 (PF 37); destination in PS.
# FD.TP.CM data, 12 octets: octet 1: low nibble control type, high nibble session number;
#   2-4 total message size (LE24); 5-7 total segments / next segment (LE24); 8, 9 depend on the type; 10-12 PGN (LE24)
#   RTS 0: 8 = max segments per CTS, 9 = assurance data type      CTS 1: 2-4 0xFFFFFF, 5-7 next segment, 8 segments granted, 9 request code
#   EOMS 2: 8 = assurance data size, 9 = ADT                     EOMA 3: 8,9 = 0xFF       BAM 4: 8 = 0xFF, 9 = 0
#   ABORT 15: 2-4, 5-7 0xFFFFFF, 8 = 0xFF, 9 = reason
# FD.TP.DT data: octet 1: low nibble DTFI (0), high nibble session; 2-4 segment number (LE24, 1-based); then up to 60 data
#   octets, padded with 0xFF to the next legal CAN FD length.
# legal CAN FD data lengths: 0..8, 12, 16, 20, 24, 32, 48, 64
# multi-PG (C-PG) header, 4 octets: octet 1: TOS 3 bits @5 | TF 3 bits @2 | CPGN bits 16..17 @0; octet 2 CPGN 8..15;
#   octet 3 CPGN 0..7; octet 4 payload length.   Padding: TOS 0 header (up to three 0x00), then 0xAA.

FD_RTS = 0
FD_CTS = 1
FD_EOMS = 2
FD_EOMA = 3
FD_BAM = 4
FD_ABORT = 15

S22_WAITING_CTS = 0
S22_SENDING_RTS_CTS = 1
S22_SENDING_BAM = 2
S22_SENDING_EOMS = 3
S22_WAITING_EOMA = 4
S22_EOMA_RECEIVED = 5
S22_FINISHED = 6

T5 = 3.0
TB_FD_DEFAULT = 0.01
FBFF = 2
FEFF = 3


def fd_len(n):
    # next legal CAN FD data length >= n (0 <= n <= 64)
    return ite(n <= 8, n, ite(n <= 12, 12, ite(n <= 16, 16, ite(n <= 20, 20, ite(n <= 24, 24, ite(n <= 32, 32, ite(n <= 48, 48, 64)))))))


def hash22(session, src, dest):
    return bits(session, 0, 4) * 65536 + bits(src, 0, 8) * 256 + bits(dest, 0, 8)


def hash_mpg(fmt, counter, src, dest):
    return bits(fmt, 0, 8) * 2 ** 24 + bits(counter, 0, 8) * 65536 + bits(src, 0, 8) * 256 + bits(dest, 0, 8)


def ceil60(n):
    return (n + 59) // 60


def fd_cm_id(priority, dest, src):
    return can_id_of(priority, 0x4D00 + bits(dest, 0, 8), src)


def fd_dt_id(dest, src):
    return can_id_of(7, 0x4E00 + bits(dest, 0, 8), src)


def fd_mpg_id(priority, dest, src):
    return can_id_of(priority, 0x2500 + bits(dest, 0, 8), src)


def fd_cm(ctl, session, size, seg, b7, b8, pgn):
    return [bits(ctl, 0, 4) + bits(session, 0, 4) * 16, le_octet(size, 0), le_octet(size, 1), le_octet(size, 2),
            le_octet(seg, 0), le_octet(seg, 1), le_octet(seg, 2), bits(b7, 0, 8), bits(b8, 0, 8),
            le_octet(pgn, 0), le_octet(pgn, 1), le_octet(pgn, 2)]


def is_fd_sent(ev, send, can_id, data):
    # one call send_message(can_id, True, data, fd_format=True)
    return ev.fn == send and ev.n == 3 and ev.i0 == can_id and ev.b1 == True and ev.b_fd_format == True and ev.l2 == data


def cpg_header_octet(tos, tf, cpgn, length, b):
    return ite(b == 0, bits(tos, 0, 3) * 32 + bits(tf, 0, 3) * 4 + bits(cpgn, 16, 2),
               ite(b == 1, bits(cpgn, 8, 8), ite(b == 2, bits(cpgn, 0, 8), length)))


# ------------------------------------------------------------------ class invariant of J1939_22 (DESIGN appendix A, Inv22)

def lut_ok(dll):
    # the DLC look-up table built in __init__: next legal CAN FD length for every length 0..64
    return len(dll._LUT_FD_DLC) == 65 and forall(lambda i: dll._LUT_FD_DLC[i] == fd_len(i), 0, 65)


def pool_rts(dll):
    return dll._J1939_22__rts_cts_session_list


def pool_bam(dll):
    return dll._J1939_22__bam_session_list


def cfg22_ok(dll):
    return (1 <= dll._max_cmdt_packets and dll._max_cmdt_packets <= 255 and dll._minimum_tp_bam_dt_interval > 0
            and implies(not is_none(dll._minimum_tp_rts_cts_dt_interval), dll._minimum_tp_rts_cts_dt_interval > 0)
            # three different callables: bus, wake-up of the job thread, delivery to the listeners
            and dll._J1939_22__send_message != dll._J1939_22__job_thread_wakeup
            and dll._J1939_22__send_message != dll._J1939_22__notify_subscribers
            and dll._J1939_22__job_thread_wakeup != dll._J1939_22__notify_subscribers
            and lut_ok(dll) and len(pool_rts(dll)) == 8 and len(pool_bam(dll)) == 4
            and owner(dll._LUT_FD_DLC) == dll and owner(pool_rts(dll)) == dll and owner(pool_bam(dll)) == dll
            and owner(dll._cas) == dll
            and no_alias(dll._snd_buffer, dll._rcv_buffer, dll._multi_pg_snd_buffer)
            and no_alias(dll._LUT_FD_DLC, dll._cas, pool_rts(dll), pool_bam(dll)))


def snd22_ok(dll, k, r):
    return (has_keys(r, 'pgn', 'priority', 'session', 'message_size', 'num_segments', 'data', 'state', 'deadline', 'src_address',
                     'dest_address', 'next_packet_to_send')
            and not has_key(r, 'next_packet') and not has_key(r, 'tos') and not has_key(r, 'cpg') and no_alias(r, dll)
            and k == hash22(r['session'], r['src_address'], r['dest_address'])
            and 0 <= r['src_address'] and r['src_address'] <= 255 and 0 <= r['dest_address'] and r['dest_address'] <= 255
            and 61 <= r['message_size'] and r['message_size'] < 2 ** 24
            and r['num_segments'] == ceil60(r['message_size']) and r['num_segments'] <= len(r['data'])
            and 0 <= r['next_packet_to_send'] and r['next_packet_to_send'] <= r['num_segments']
            and 0 <= r['state'] and r['state'] <= 6
            and 0 <= r['pgn'] and r['pgn'] < 2 ** 18
            and 0 <= r['priority'] and r['priority'] <= 7
            and r['deadline'] > 0
            and owner(r['data']) == r
            # the session number is taken from the pool of its kind, and marked as taken there
            and ite(r['dest_address'] != 255,
                    0 <= r['session'] and r['session'] <= 7 and pool_rts(dll)[r['session']] == False
                    and has_key(r, 'next_wait_on_cts')
                    and r['state'] != S22_SENDING_BAM and r['state'] != S22_SENDING_EOMS,
                    0 <= r['session'] and r['session'] <= 3 and pool_bam(dll)[r['session']] == False
                    and (r['state'] == S22_SENDING_BAM or r['state'] == S22_SENDING_EOMS))
            and implies(r['state'] == S22_SENDING_BAM, r['next_packet_to_send'] < r['num_segments'])
            and implies(r['state'] == S22_SENDING_RTS_CTS,
                        r['next_packet_to_send'] <= r['next_wait_on_cts'] and r['next_wait_on_cts'] < r['num_segments']))


def rcv22_ok(dll, k, r):
    return (has_keys(r, 'pgn', 'session', 'message_size', 'num_segments', 'next_packet', 'data', 'deadline', 'src_address',
                     'dest_address')
            and not has_key(r, 'next_packet_to_send') and not has_key(r, 'tos') and not has_key(r, 'cpg') and no_alias(r, dll)
            and k == hash22(r['session'], r['src_address'], r['dest_address'])
            and 0 <= r['session'] and r['session'] <= 15
            and 0 <= r['src_address'] and r['src_address'] <= 255 and 0 <= r['dest_address'] and r['dest_address'] <= 255
            and 0 <= r['pgn'] and r['pgn'] < 2 ** 24
            and 0 <= r['message_size'] and r['message_size'] < 2 ** 24
            and 0 <= r['num_segments'] and r['num_segments'] < 2 ** 24
            and 1 <= r['next_packet']
            and r['deadline'] > 0
            # reassembly never keeps more than the announced size
            and len(r['data']) <= r['message_size'] and octets(r['data'])
            and has_key(r, 'next_cts_border') == has_key(r, 'num_segments_max_rec')
            and implies(has_key(r, 'next_cts_border'),
                        0 <= r['num_segments_max_rec'] and r['num_segments_max_rec'] <= 255
                        and 0 <= r['next_cts_border'] and r['next_cts_border'] <= r['num_segments'])
            # the reassembly buffer is owned by its session (it is extended in place)
            and owner(r['data']) == r)


def cpg_ok(c):
    return (has_keys(c, 'priority', 'tos', 'tf', 'cpgn', 'data_length', 'data')
            and not has_key(c, 'next_packet') and not has_key(c, 'next_packet_to_send') and not has_key(c, 'cpg')
            and 0 <= c['priority'] and c['priority'] <= 7 and 0 <= c['tos'] and c['tos'] <= 7 and 0 <= c['tf'] and c['tf'] <= 7
            and 0 <= c['cpgn'] and c['cpgn'] < 2 ** 18 and 0 <= c['data_length'] and c['data_length'] <= 60
            and len(c['data']) == c['data_length'] and octets(c['data']) and owner(c['data']) == c)


def cpg_sz(cs, i, n):
    # octets the i-th contained group takes in the frame (4-octet header + data), 0 beyond the first n groups
    return ite(i < n, 4 + cs[i]['data_length'], 0)


def psum(cs, n):
    # octets taken by the first n groups of cs (n <= 16: a frame of 64 octets holds at most 16 groups)
    return (cpg_sz(cs, 0, n) + cpg_sz(cs, 1, n) + cpg_sz(cs, 2, n) + cpg_sz(cs, 3, n) + cpg_sz(cs, 4, n) + cpg_sz(cs, 5, n)
            + cpg_sz(cs, 6, n) + cpg_sz(cs, 7, n) + cpg_sz(cs, 8, n) + cpg_sz(cs, 9, n) + cpg_sz(cs, 10, n) + cpg_sz(cs, 11, n)
            + cpg_sz(cs, 12, n) + cpg_sz(cs, 13, n) + cpg_sz(cs, 14, n) + cpg_sz(cs, 15, n))


def cpgs_ok(cs):
    return (1 <= len(cs) and len(cs) <= 16 and forall(lambda i: cpg_ok(cs[i]), 0, len(cs)) and psum(cs, len(cs)) <= 64)


def mpg22_ok(dll, k, r):
    return (has_keys(r, 'deadline', 'cpg', 'fill_level')
            and not has_key(r, 'next_packet') and not has_key(r, 'next_packet_to_send') and not has_key(r, 'tos') and no_alias(r, dll)
            and 0 <= k and k < 2 ** 32
            and cpgs_ok(r['cpg']) and r['fill_level'] == psum(r['cpg'], len(r['cpg'])) and owner(r['cpg']) == r)


def inv22(dll):
    return (cfg22_ok(dll)
            and keys_forall(dll._snd_buffer, lambda k, r: snd22_ok(dll, k, r))
            and keys_forall(dll._rcv_buffer, lambda k, r: rcv22_ok(dll, k, r))
            and keys_forall(dll._multi_pg_snd_buffer, lambda k, r: mpg22_ok(dll, k, r))
            # every collection buffer is a record of its own
            and forall(lambda a, b: implies(has_key(dll._multi_pg_snd_buffer, a) and has_key(dll._multi_pg_snd_buffer, b) and a != b,
                                            dll._multi_pg_snd_buffer[a] != dll._multi_pg_snd_buffer[b]))
            # a session number is held by at most one send session of its kind
            and forall(lambda a, b: implies(has_key(dll._snd_buffer, a) and has_key(dll._snd_buffer, b) and a != b
                                            and (dll._snd_buffer[a]['dest_address'] == 255) == (dll._snd_buffer[b]['dest_address'] == 255),
                                            dll._snd_buffer[a]['session'] != dll._snd_buffer[b]['session'])))


def mn(a, b):
    return ite(a < b, a, b)


def pr_at(cs, i, n):
    return ite(i < n, cs[i]['priority'], 7)


def min_prio(cs, n):
    # lowest priority value (= highest urgency) among the first n groups, 7 if none
    return mn(mn(mn(mn(pr_at(cs, 0, n), pr_at(cs, 1, n)), mn(pr_at(cs, 2, n), pr_at(cs, 3, n))),
                 mn(mn(pr_at(cs, 4, n), pr_at(cs, 5, n)), mn(pr_at(cs, 6, n), pr_at(cs, 7, n)))),
              mn(mn(mn(pr_at(cs, 8, n), pr_at(cs, 9, n)), mn(pr_at(cs, 10, n), pr_at(cs, 11, n))),
                 mn(mn(pr_at(cs, 12, n), pr_at(cs, 13, n)), mn(pr_at(cs, 14, n), pr_at(cs, 15, n)))))


def group_at_off(data, cs, j, o):
    # the j-th contained group sits at offset o: 4-octet C-PG header, then its data octets
    return (forall(lambda b: data[o + b] == cpg_header_octet(cs[j]['tos'], cs[j]['tf'], cs[j]['cpgn'], cs[j]['data_length'], b), 0, 4)
            and forall(lambda t: data[o + 4 + t] == cs[j]['data'][t], 0, cs[j]['data_length']))


def group_at(data, cs, j):
    # groups are laid out back to back: the j-th one starts where the first j end
    return group_at_off(data, cs, j, psum(cs, j))


def offsets_ok(off, cs):
    # off[j] = octets taken by the first j groups (running sum)
    return (len(off) == len(cs) + 1 and off[0] == 0
            and forall(lambda j: off[j + 1] == off[j] + 4 + cs[j]['data_length'], 0, len(cs))
            # (consequence of the recurrence, stated for the prover: running sums are monotone)
            and forall(lambda j: 0 <= off[j] and off[j] <= off[len(cs)], 0, len(cs) + 1))


def pad_at(data, start, i):
    # padding after the last group: a zero service header (TOS 0: up to three 0x00 octets), then 0xAA
    return data[i] == ite(i < start + 3, 0, 0xAA)
