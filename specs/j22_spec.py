# SAE J1939-22 (CAN FD): FD transport protocol and multi-PG frame layouts, independent statement.
#
# FD.TP.CM  PGN 0x4D00 (PF 77), FD.TP.DT PGN 0x4E00 (PF 78), multi-PG PGN 0x2500 (PF 37); destination in PS.
# FD.TP.CM data, 12 octets: octet 1: low nibble control type, high nibble session number;
#   2-4 total message size (LE24); 5-7 total segments / next segment (LE24); 8, 9 depend on the type; 10-12 PGN (LE24)
#   RTS 0: 8 = max segments per CTS, 9 = assurance data type      CTS 1: 2-4 0xFFFFFF, 5-7 next segment, 8 segments granted, 9 request code
#   EOMS 2: 8 = assurance data size, 9 = ADT                     EOMA 3: 8,9 = 0xFF       BAM 4: 8 = 0xFF, 9 = 0
#   ABORT 15: 2-4, 5-7 0xFFFFFF, 8 = 0xFF, 9 = reason
# FD.TP.DT data: octet 1: low nibble DTFI (0), high nibble session; 2-4 segment number (LE24, 1-based); then up to 60 data
#   octets, padded with 0xFF to the next legal CAN FD length.
# legal CAN FD data lengths: 0..8, 12, 16, 20, 24, 32, 48, 64
# multi-PG (C-PG) header, 4 octets: octet 1: TOS 3 bits @5 | TF 3 bits @2 | CPGN bits 16..17 @0; octet 2 CPGN 8..15;
#   octet 3 CPGN 0..7; octet 4 payload length.   Padding: TOS 0 header (up to three 0x00), then 0xAA.

FD_RTS = 0
FD_CTS = 1
FD_EOMS = 2
FD_EOMA = 3
FD_BAM = 4
FD_ABORT = 15

S22_WAITING_CTS = 0
S22_SENDING_RTS_CTS = 1
S22_SENDING_BAM = 2
S22_SENDING_EOMS = 3
S22_WAITING_EOMA = 4
S22_EOMA_RECEIVED = 5
S22_FINISHED = 6

T5 = 3.0
TB_FD_DEFAULT = 0.01
FBFF = 2
FEFF = 3


def fd_len(n):
    # next legal CAN FD data length >= n (0 <= n <= 64)
    return ite(n <= 8, n, ite(n <= 12, 12, ite(n <= 16, 16, ite(n <= 20, 20, ite(n <= 24, 24, ite(n <= 32, 32, ite(n <= 48, 48, 64)))))))


def hash22(session, src, dest):
    return bits(session, 0, 4) * 65536 + bits(src, 0, 8) * 256 + bits(dest, 0, 8)


def hash_mpg(fmt, counter, src, dest):
    return bits(fmt, 0, 8) * 2 ** 24 + bits(counter, 0, 8) * 65536 + bits(src, 0, 8) * 256 + bits(dest, 0, 8)


def ceil60(n):
    return (n + 59) // 60


def fd_cm_id(priority, dest, src):
    return can_id_of(priority, 0x4D00 + bits(dest, 0, 8), src)


def fd_dt_id(dest, src):
    return can_id_of(7, 0x4E00 + bits(dest, 0, 8), src)


def fd_mpg_id(priority, dest, src):
    return can_id_of(priority, 0x2500 + bits(dest, 0, 8), src)


def fd_cm(ctl, session, size, seg, b7, b8, pgn):
    return [bits(ctl, 0, 4) + bits(session, 0, 4) * 16, le_octet(size, 0), le_octet(size, 1), le_octet(size, 2),
            le_octet(seg, 0), le_octet(seg, 1), le_octet(seg, 2), bits(b7, 0, 8), bits(b8, 0, 8),
            le_octet(pgn, 0), le_octet(pgn, 1), le_octet(pgn, 2)]


def is_fd_sent(ev, send, can_id, data):
    # one call send_message(can_id, True, data, fd_format=True)
    return ev.fn == send and ev.n == 3 and ev.i0 == can_id and ev.b1 == True and ev.b_fd_format == True and ev.l2 == data


def cpg_header_octet(tos, tf, cpgn, length, b):
    return ite(b == 0, bits(tos, 0, 3) * 32 + bits(tf, 0, 3) * 4 + bits(cpgn, 16, 2),
               ite(b == 1, bits(cpgn, 8, 8), ite(b == 2, bits(cpgn, 0, 8), length)))
