# Independent statement of the SAE J1939 layouts, in arithmetic form: a field of width w at
# bit position b contributes field * 2**b; an n-byte little-endian number is sum(b_i * 256**i).
# Written from the standards' tables (J1939-21 5.2 identifier, J1939-81 4.1 NAME, J1939-73
# 5.7.1.x DTC), not from the shift/mask expressions of the code under verification.
#
# These functions are *spec functions*: pure, evaluated symbolically by pyvc in spec mode and
# natively (plain Python) by the replayer.  bits(x, lo, n) is field extraction.

# ---- J1939-21: 29-bit identifier -------------------------------------------------------
# | P 3 | EDP 1 | DP 1 | PF 8 | PS 8 | SA 8 |     bit 28 ... bit 0 ; PGN = EDP,DP,PF,PS (18 bit)


def can_id_of(priority, pgn, sa):
    return bits(priority, 0, 3) * 2 ** 26 + bits(pgn, 0, 18) * 2 ** 8 + bits(sa, 0, 8)


def id_priority(can_id):
    return bits(can_id, 26, 3)


def id_pgn(can_id):
    return bits(can_id, 8, 18)


def id_sa(can_id):
    return bits(can_id, 0, 8)


def pgn_value_of(dp, pf, ps):
    return bits(dp, 0, 1) * 65536 + bits(pf, 0, 8) * 256 + bits(ps, 0, 8)


def pgn_is_pdu1(value):
    # PDU1 <=> PDU format octet (bits 8..15) below 240
    return bits(value, 8, 8) < 240


# ---- J1939-81: NAME ------------------------------------------------------------------
# identity 21 @0 | manufacturer 11 @21 | ecu instance 3 @32 | function instance 5 @35 |
# function 8 @40 | reserved 1 @48 | vehicle system 7 @49 | vehicle system instance 4 @56 |
# industry group 3 @60 | arbitrary address capable 1 @63


def name_value_of(aac, ig, vsi, vs, res, fn, fi, ecu, mc, idn):
    return (idn + mc * 2 ** 21 + ecu * 2 ** 32 + fi * 2 ** 35 + fn * 2 ** 40 + res * 2 ** 48
            + vs * 2 ** 49 + vsi * 2 ** 56 + ig * 2 ** 60 + aac * 2 ** 63)


def name_in_range(aac, ig, vsi, vs, fn, fi, ecu, mc, idn):
    return (0 <= aac and aac < 2 and 0 <= ig and ig < 8 and 0 <= vsi and vsi < 16 and 0 <= vs and vs < 128
            and 0 <= fn and fn < 256 and 0 <= fi and fi < 32 and 0 <= ecu and ecu < 8
            and 0 <= mc and mc < 2048 and 0 <= idn and idn < 2 ** 21)


def le_octet(value, i):
    # i-th octet of a little-endian number
    return bits(value, 8 * i, 8)


def le2(b0, b1):
    return b0 + b1 * 256


def le3(b0, b1, b2):
    return b0 + b1 * 256 + b2 * 65536


def le4(b0, b1, b2, b3):
    return b0 + b1 * 256 + b2 * 65536 + b3 * 16777216


def le8(b0, b1, b2, b3, b4, b5, b6, b7):
    return (b0 + b1 * 2 ** 8 + b2 * 2 ** 16 + b3 * 2 ** 24 + b4 * 2 ** 32 + b5 * 2 ** 40
            + b6 * 2 ** 48 + b7 * 2 ** 56)
