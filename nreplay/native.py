"""Native replay of a counter-model: build the inputs the solver's model describes, call the REAL repository function under
CPython (/venv/bin/python), and evaluate the contract clause that failed with plain Python semantics.

usage: /venv/bin/python nreplay/native.py <record.json> [repo_root]
exit 1: the clause is violated natively for these inputs (a failing input of the real code);
exit 0: the clause holds natively (the counter-model does not replay: no failing input found);
exit 2: this clause / these inputs are outside what the replayer supports (no failing input found).

Supported: functions, methods, property getters / setters and constructors whose inputs are ints, bools, floats, None,
lists of ints and a `self` with primitive fields; clauses over parameters, self, result, old(...), the spec functions of
/verif/specs and /verif/contracts.  Not supported: the ghost trace, tables / records of the session layers, ownership."""
import ast
import copy
import importlib
import json
import os
import sys

VERIF = os.path.dirname(os.path.dirname(os.path.abspath(__file__)))


class Unsupported(Exception):
    pass


class SafeList(list):
    """reads beyond the end give 0: specification expressions are total (guards sit in ite / implies around them)"""

    def __getitem__(self, i):
        if isinstance(i, slice):
            return SafeList(list.__getitem__(self, i))
        if -len(self) <= i < len(self):
            return list.__getitem__(self, i)
        return 0


def wrap(v):
    if isinstance(v, (list, bytearray, bytes)) and not isinstance(v, SafeList):
        return SafeList(list(v))
    return v


def native_builtins():
    def bits(x, lo, n):
        return (int(x) >> lo) & ((1 << n) - 1)

    def forall(f, lo=None, hi=None):
        if lo is None:
            raise Unsupported('unbounded forall')
        return all(f(i) for i in range(int(lo), int(hi)))

    def exists(f, lo=None, hi=None):
        if lo is None:
            raise Unsupported('unbounded exists')
        return any(f(i) for i in range(int(lo), int(hi)))

    def unsupported(name):
        def f(*a, **k):
            raise Unsupported(name)
        return f
    ns = {
        'bits': bits, 'ite': lambda c, a, b: a if c else b, 'implies': lambda a, b: (not a) or bool(b), 'iff': lambda a, b: bool(a) == bool(b),
        'forall': forall, 'exists': exists, 'is_none': lambda x: x is None, 'same_list': lambda a, b: list(a) == list(b),
        'octets': lambda xs: all(isinstance(x, int) and 0 <= x <= 255 for x in xs),
        'count': lambda f, lo, hi: sum(1 for i in range(int(lo), int(hi)) if f(i)),
        'unit': lambda *a, **k: (lambda fn: None),
    }
    for nm in ('has_key', 'has_keys', 'owner', 'table_same_except', 'keys_forall', 'fn', 'method', 'no_alias', 'unchanged', 'typeis',
               'at_entry', 'at_head', 'last_removed_index', 'steps'):
        ns[nm] = unsupported(nm)
    return ns


def load_spec_namespace():
    ns = native_builtins()
    for d in ('specs', 'contracts'):
        for fn in sorted(os.listdir(os.path.join(VERIF, d))):
            if not fn.endswith('.py') or fn == 'shapes.py' or fn.startswith('_'):
                continue
            src = open(os.path.join(VERIF, d, fn)).read()
            tree = ast.parse(src)
            # keep plain (undecorated) functions and constants only
            keep = [n for n in tree.body if (isinstance(n, ast.FunctionDef) and not n.decorator_list) or isinstance(n, ast.Assign)]
            mod = ast.Module(body=keep, type_ignores=[])
            exec(compile(mod, os.path.join(d, fn), 'exec'), ns)
    return ns


class Prep(ast.NodeTransformer):
    """old(e) -> value computed in the pre-state; private names are mangled like inside the class"""

    def __init__(self, cls, olds):
        self.cls, self.olds = cls, olds

    def visit_Attribute(self, node):
        self.generic_visit(node)
        if self.cls and node.attr.startswith('__') and not node.attr.endswith('__'):
            node.attr = '_%s%s' % (self.cls.lstrip('_'), node.attr)
        return node

    def visit_Call(self, node):
        if isinstance(node.func, ast.Name) and node.func.id == 'old':
            key = ast.unparse(node.args[0])
            if key not in self.olds:
                raise Unsupported('old(%s) was not captured' % key)
            return ast.copy_location(ast.Name(id=self.olds[key], ctx=ast.Load()), node)
        if isinstance(node.func, ast.Name) and node.func.id == 'lemma':
            return self.visit(node.args[0])
        self.generic_visit(node)
        return node


def find_unit(contract_file, unit_line):
    tree = ast.parse(open(os.path.join(VERIF, contract_file)).read())
    for n in tree.body:
        if isinstance(n, ast.FunctionDef) and n.lineno <= unit_line <= n.end_lineno and n.decorator_list:
            return n
    raise Unsupported('unit not found at %s:%s' % (contract_file, unit_line))


def clause_calls(unit):
    for st in unit.body:
        if isinstance(st, ast.Expr) and isinstance(st.value, ast.Call) and isinstance(st.value.func, ast.Name):
            yield st.value


def collect_olds(nodes):
    out = []
    for n in nodes:
        for c in ast.walk(n):
            if isinstance(c, ast.Call) and isinstance(c.func, ast.Name) and c.func.id == 'old':
                out.append(c.args[0])
    return out


def main():
    rec = json.load(open(sys.argv[1]))
    root = sys.argv[2] if len(sys.argv) > 2 else rec.get('repo_root', '/repo')
    sys.path.insert(0, root)
    modname, qual = rec['unit_key'].split(':')
    mod = importlib.import_module(modname)
    parts = qual.split('.')
    kind = 'function'
    if parts[-1] in ('getter', 'setter'):
        kind = parts[-1]
        parts = parts[:-1]
    cls = getattr(mod, parts[0]) if len(parts) > 1 else None
    clsname = parts[0] if cls is not None else None
    fname = parts[-1]
    inp = rec['inputs']
    unit = find_unit(rec['contract_file'], rec['unit_line'])
    ns = load_spec_namespace()

    # ---- build the inputs
    params = {k: wrap(v) for k, v in (inp.get('params') or {}).items()}
    kwargs = {k: wrap(v) for k, v in (inp.get('kwargs') or {}).items()}
    selfobj = None
    if cls is not None:
        selfobj = cls.__new__(cls)
        for k, v in ((inp.get('self') or {}).get('fields') or {}).items():
            try:
                object.__setattr__(selfobj, k, list(v) if isinstance(v, list) else v)
            except Exception:
                pass
    env = dict(ns)
    env.update(params)
    if kwargs or unit.args.kwarg is not None:
        env[unit.args.kwarg.arg if unit.args.kwarg is not None else 'kwargs'] = kwargs
    env['self'] = selfobj

    calls = list(clause_calls(unit))
    lets = [(ast.literal_eval(c.args[0]), c.args[1]) for c in calls if c.func.id == 'let']
    target = [c for c in calls if c.lineno <= rec['clause_line'] <= c.end_lineno and c.func.id in ('ensures', 'raises', 'requires')]
    requires = [a for c in calls if c.func.id == 'requires' for a in c.args]

    def ev(node, olds=None, extra=None):
        node = Prep(clsname, olds or {}).visit(copy.deepcopy(node))
        ast.fix_missing_locations(node)
        e2 = dict(env)
        if extra:
            e2.update(extra)
        return eval(compile(ast.Expression(body=node), '<clause>', 'eval'), e2)

    # ---- pre-state: lets without result, old(...) captures, preconditions
    old_nodes = collect_olds([a for c in target for a in c.args] + [v for _, v in lets] + [c.kw.value for c in target for c.kw in []])
    olds, old_vals = {}, {}
    for i, n in enumerate(old_nodes):
        key = ast.unparse(n)
        if key not in olds:
            olds[key] = '__old%d' % i
            old_vals[olds[key]] = copy.deepcopy(ev(n, {}, None))
    for name, node in lets:
        try:
            env[name] = wrap(ev(node, olds, old_vals))
        except Unsupported:
            raise
        except Exception:
            pass        # lets that mention result / post-state are evaluated again below
    for r in requires:
        try:
            if not ev(r, olds, old_vals):
                print('REPLAY: the inputs of the counter-model do not satisfy the precondition natively: %s' % ast.unparse(r)[:160])
                return 0
        except Unsupported as u:
            raise
    # ---- the call, on the real code
    exc = None
    result = None
    call_kwargs = dict(kwargs)
    try:
        if kind == 'getter':
            result = getattr(selfobj, fname)
        elif kind == 'setter':
            setattr(selfobj, fname, list(params.values())[0])
        elif cls is not None:
            fn = getattr(cls, fname)
            names = [a.arg for a in unit.args.args][1:]
            result = fn(selfobj, *[params[n] for n in names], **call_kwargs)
        else:
            fn = getattr(mod, fname)
            result = fn(*[params[a.arg] for a in unit.args.args], **call_kwargs)
    except Exception as e:      # the real code raised
        exc = e
    env['result'] = wrap(result)
    for name, node in lets:
        try:
            env[name] = wrap(ev(node, olds, old_vals))
        except Exception:
            pass
    shown = {'params': inp.get('params'), 'kwargs': inp.get('kwargs'), 'self': (inp.get('self') or {}).get('fields')}
    if rec.get('obligation_kind') == 'noexc' or exc is not None:
        if exc is not None:
            allowed = [ast.literal_eval(c.args[0]) for c in calls if c.func.id == 'raises']
            flat = [x for a in allowed for x in (a if isinstance(a, list) else [a])]
            if type(exc).__name__ not in flat:
                print('REPLAY: the real function raises %s: %s for inputs %s' % (type(exc).__name__, exc, json.dumps(shown, default=str)))
                return 1
            print('REPLAY: the real function raises %s (allowed by the contract)' % type(exc).__name__)
            return 0
        print('REPLAY: no exception natively')
        return 0
    failed = []
    for c in target:
        if c.func.id != 'ensures':
            continue
        for a in c.args:
            if isinstance(a, ast.Constant) and isinstance(a.value, str):
                continue
            if not ev(a, olds, old_vals):
                failed.append(ast.unparse(a))
    if failed:
        print('REPLAY: the real function violates the clause for inputs %s' % json.dumps(shown, default=str))
        print('REPLAY: result = %r' % (result,))
        if selfobj is not None:
            print('REPLAY: self after the call = %s' % json.dumps({k: v for k, v in vars(selfobj).items()}, default=str)[:600])
        for f in failed:
            print('REPLAY: false natively: %s' % f[:300])
        return 1
    print('REPLAY: the clause holds natively for the inputs of the counter-model')
    return 0


if __name__ == '__main__':
    try:
        sys.exit(main())
    except Unsupported as u:
        print('REPLAY: unsupported by the native replayer: %s' % u)
        sys.exit(2)
