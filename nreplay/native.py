"""Native replay of a counter-model, and bounded native search for a failing input.

replay:  build the inputs the solver's model describes, call the REAL repository function under CPython (/venv/bin/python),
         evaluate the contract clause that failed with plain Python semantics.
search:  when a violation has no replayable model (loop-invariant failures: the model describes a mid-loop state; undecided
         obligations under the baseline rule), enumerate inputs from small boundary-value pools that satisfy the unit's
         preconditions and evaluate ALL ensures clauses of the unit natively.  A hit is a real failing input of the real code;
         no hit proves nothing (BOUNDED, budget stated in the output).

usage: /venv/bin/python nreplay/native.py <record.json> [repo_root] [--search]
exit 1: a clause is violated natively for the printed inputs (a failing input of the real code);
exit 0: the clause holds natively for the model's inputs / the search found nothing;
exit 2: this clause / these inputs are outside what the replayer supports.

Supported: functions, methods, property getters / setters and constructors whose inputs are ints, bools, floats, None,
lists of ints and a `self` with primitive fields; clauses over parameters, self, result, old(...), the spec functions of
/verif/specs and /verif/contracts.  Not supported: the ghost trace, tables / records of the session layers, ownership."""
import ast
import copy
import importlib
import itertools
import json
import os
import random
import sys

VERIF = os.path.dirname(os.path.dirname(os.path.abspath(__file__)))
SEARCH_BUDGET = 60000


class Unsupported(Exception):
    pass


class SafeList(list):
    """reads beyond the end give 0: specification expressions are total (guards sit in ite / implies around them)"""

    def __getitem__(self, i):
        if isinstance(i, slice):
            return SafeList(list.__getitem__(self, i))
        if -len(self) <= i < len(self):
            return list.__getitem__(self, i)
        return 0


def wrap(v):
    if isinstance(v, (list, bytearray, bytes)) and not isinstance(v, SafeList):
        return SafeList(list(v))
    return v


def native_builtins():
    def bits(x, lo, n):
        return (int(x) >> lo) & ((1 << n) - 1)

    def forall(f, lo=None, hi=None):
        if lo is None:
            raise Unsupported('unbounded forall')
        return all(f(i) for i in range(int(lo), int(hi)))

    def exists(f, lo=None, hi=None):
        if lo is None:
            raise Unsupported('unbounded exists')
        return any(f(i) for i in range(int(lo), int(hi)))

    def unsupported(name):
        def f(*a, **k):
            raise Unsupported(name)
        return f
    ns = {
        'bits': bits, 'ite': lambda c, a, b: a if c else b, 'implies': lambda a, b: (not a) or bool(b), 'iff': lambda a, b: bool(a) == bool(b),
        'forall': forall, 'exists': exists, 'is_none': lambda x: x is None, 'same_list': lambda a, b: list(a) == list(b),
        'octets': lambda xs: all(isinstance(x, int) and 0 <= x <= 255 for x in xs),
        'count': lambda f, lo, hi: sum(1 for i in range(int(lo), int(hi)) if f(i)),
        'unit': lambda *a, **k: (lambda fn: None),
    }
    for nm in ('has_key', 'has_keys', 'owner', 'table_same_except', 'keys_forall', 'fn', 'method', 'no_alias', 'unchanged', 'typeis',
               'at_entry', 'at_head', 'last_removed_index', 'steps'):
        ns[nm] = unsupported(nm)
    return ns


def load_spec_namespace():
    ns = native_builtins()
    for d in ('specs', 'contracts'):
        for fn in sorted(os.listdir(os.path.join(VERIF, d))):
            if not fn.endswith('.py') or fn == 'shapes.py' or fn.startswith('_'):
                continue
            src = open(os.path.join(VERIF, d, fn)).read()
            tree = ast.parse(src)
            keep = [n for n in tree.body if (isinstance(n, ast.FunctionDef) and not n.decorator_list) or isinstance(n, ast.Assign)]
            exec(compile(ast.Module(body=keep, type_ignores=[]), os.path.join(d, fn), 'exec'), ns)
    return ns


class Prep(ast.NodeTransformer):
    """old(e) -> value computed in the pre-state; private names are mangled like inside the class; lemma(e) -> e"""

    def __init__(self, cls, olds):
        self.cls, self.olds = cls, olds

    def visit_Attribute(self, node):
        self.generic_visit(node)
        if self.cls and node.attr.startswith('__') and not node.attr.endswith('__'):
            node.attr = '_%s%s' % (self.cls.lstrip('_'), node.attr)
        return node

    def visit_Call(self, node):
        if isinstance(node.func, ast.Name) and node.func.id == 'old':
            key = ast.unparse(node.args[0])
            if key not in self.olds:
                raise Unsupported('old(%s) was not captured' % key)
            return ast.copy_location(ast.Name(id=self.olds[key], ctx=ast.Load()), node)
        if isinstance(node.func, ast.Name) and node.func.id == 'lemma':
            return self.visit(node.args[0])
        self.generic_visit(node)
        return node


def find_unit(contract_file, unit_line):
    tree = ast.parse(open(os.path.join(VERIF, contract_file)).read())
    for n in tree.body:
        if isinstance(n, ast.FunctionDef) and n.lineno <= unit_line <= n.end_lineno and n.decorator_list:
            return n
    raise Unsupported('unit not found at %s:%s' % (contract_file, unit_line))


def declared_fields():
    """class -> {field: type string} from contracts/shapes.py"""
    out = {}

    class _T:
        def __init__(self, s):
            self.s = s

        def __call__(self, *a, **k):
            return _T('%s(%s)' % (self.s, ','.join(getattr(x, 's', repr(x)) for x in a)))

    class _NS(dict):
        def __missing__(self, k):
            return _T(k)

    def cls(name, **fields):
        out.setdefault(name, {}).update({k: getattr(v, 's', str(v)) for k, v in fields.items()})
    ns = _NS()
    ns.update({'cls': cls, 'rec': lambda *a, **k: None, 'ext': lambda *a, **k: None, 'key': lambda *a, **k: None})
    try:
        exec(compile(open(os.path.join(VERIF, 'contracts', 'shapes.py')).read(), 'shapes.py', 'exec'), ns)
    except Exception:
        pass
    return out


INT_POOL = [0, 1, 2, 3, 4, 7, 8, 15, 16, 31, 32, 127, 128, 129, 239, 240, 254, 255, 256, 257, 0x7FFF, 0x8000, 0xFFFF, 0x10000, 0x3FFFF,
            0x40000, 0xFFFFFF, 0x1FFFFFFF, 0x7FFFFFFF, 0x80000000, 0xFFFFFFFF, 2 ** 63, 2 ** 64 - 1, -1]
LIST_POOL = [[], [0], [1], [0x7F], [0x80], [0xFF], [1, 2], [0, 0x80], [0xFF, 0xFF], [0x00, 0x80], [1, 2, 3], [0xFF, 0xFF, 0x01, 0x00],
             [0, 0, 0, 0x80], [1, 2, 3, 4, 5, 6, 7, 8], [0xFF] * 8, [0, 0, 0, 0, 0, 0, 0, 0x80], [0x34, 0x12, 0x78, 0x56]]


def pool_for(tstr):
    t = (tstr or 'int').replace(' ', '')
    if t.startswith('opt('):
        inner = pool_for(t[4:-1])
        return None if inner is None else [None] + inner
    if t in ('int', 'INT'):
        return INT_POOL
    if t in ('bool', 'BOOL'):
        return [False, True]
    if t in ('real', 'REAL'):
        return [0.0, 0.5, 1.0]
    if t in ('octets', 'OCTETS', 'list(int)', 'TList(INT)'):
        return LIST_POOL
    return None


class Replayer:
    def __init__(self, rec, root):
        self.rec = rec
        sys.path.insert(0, root)
        modname, qual = rec['unit_key'].split(':')
        self.mod = importlib.import_module(modname)
        parts = qual.split('.')
        self.kind = 'function'
        if parts[-1] in ('getter', 'setter'):
            self.kind = parts[-1]
            parts = parts[:-1]
        self.cls = getattr(self.mod, parts[0]) if len(parts) > 1 else None
        self.clsname = parts[0] if self.cls is not None else None
        self.fname = parts[-1]
        self.unit = find_unit(rec['contract_file'], rec['unit_line'])
        self.ns = load_spec_namespace()
        self.calls = [st.value for st in self.unit.body
                      if isinstance(st, ast.Expr) and isinstance(st.value, ast.Call) and isinstance(st.value.func, ast.Name)]
        self.lets = [(ast.literal_eval(c.args[0]), c.args[1]) for c in self.calls if c.func.id == 'let']
        self.requires = [a for c in self.calls if c.func.id == 'requires' for a in c.args]
        self.allowed_exc = []
        for c in self.calls:
            if c.func.id == 'raises':
                a = ast.literal_eval(c.args[0])
                self.allowed_exc += a if isinstance(a, list) else [a]

    def clauses(self, only_line=None):
        out = []
        for c in self.calls:
            if c.func.id != 'ensures':
                continue
            if only_line is not None and not (c.lineno <= only_line <= c.end_lineno):
                continue
            out += [a for a in c.args if not (isinstance(a, ast.Constant) and isinstance(a.value, str))]
        return out

    def try_inputs(self, inp, target):
        """-> (status, lines): 'violated' | 'holds' | 'pre-false' ; raises Unsupported"""
        params = {k: wrap(copy.deepcopy(v)) for k, v in (inp.get('params') or {}).items()}
        kwargs = {k: wrap(copy.deepcopy(v)) for k, v in (inp.get('kwargs') or {}).items()}
        selfobj = None
        if self.cls is not None:
            selfobj = self.cls.__new__(self.cls)
            for k, v in ((inp.get('self') or {}).get('fields') or {}).items():
                try:
                    object.__setattr__(selfobj, k, list(v) if isinstance(v, list) else v)
                except Exception:
                    pass
        env = dict(self.ns)
        env.update(params)
        if kwargs or self.unit.args.kwarg is not None:
            env[self.unit.args.kwarg.arg if self.unit.args.kwarg is not None else 'kwargs'] = kwargs
        env['self'] = selfobj

        def ev(node, olds, extra):
            node = Prep(self.clsname, olds).visit(copy.deepcopy(node))
            ast.fix_missing_locations(node)
            e2 = dict(env)
            e2.update(extra)
            return eval(compile(ast.Expression(body=node), '<clause>', 'eval'), e2)
        old_nodes = []
        for n in target + [v for _, v in self.lets]:
            for c in ast.walk(n):
                if isinstance(c, ast.Call) and isinstance(c.func, ast.Name) and c.func.id == 'old':
                    old_nodes.append(c.args[0])
        olds, old_vals = {}, {}
        for i, n in enumerate(old_nodes):
            key = ast.unparse(n)
            if key not in olds:
                olds[key] = '__old%d' % i
                try:
                    old_vals[olds[key]] = copy.deepcopy(ev(n, {}, {}))
                except Unsupported:
                    raise
                except Exception:
                    return 'pre-false', ['old(%s) cannot be evaluated in the pre-state' % key]
        for name, node in self.lets:
            try:
                env[name] = wrap(ev(node, olds, old_vals))
            except Unsupported:
                raise
            except Exception:
                pass
        for r in self.requires:
            try:
                ok = ev(r, olds, old_vals)
            except Unsupported:
                raise
            except Exception:
                ok = False
            if not ok:
                return 'pre-false', ['precondition false natively: %s' % ast.unparse(r)[:160]]
        exc, result = None, None
        try:
            if self.kind == 'getter':
                result = getattr(selfobj, self.fname)
            elif self.kind == 'setter':
                setattr(selfobj, self.fname, list(params.values())[0])
            elif self.cls is not None:
                names = [a.arg for a in self.unit.args.args][1:]
                result = getattr(self.cls, self.fname)(selfobj, *[params[n] for n in names], **kwargs)
            else:
                result = getattr(self.mod, self.fname)(*[params[a.arg] for a in self.unit.args.args], **kwargs)
        except Exception as e:
            exc = e
        shown = json.dumps({'params': inp.get('params'), 'kwargs': inp.get('kwargs'), 'self': (inp.get('self') or {}).get('fields')}, default=str)
        if exc is not None:
            if type(exc).__name__ not in self.allowed_exc:
                return 'violated', ['the real function raises %s: %s for inputs %s' % (type(exc).__name__, exc, shown)]
            return 'holds', ['the real function raises %s (allowed by the contract)' % type(exc).__name__]
        env['result'] = wrap(result)
        for name, node in self.lets:
            try:
                env[name] = wrap(ev(node, olds, old_vals))
            except Exception:
                pass
        failed = []
        for a in target:
            try:
                if not ev(a, olds, old_vals):
                    failed.append(ast.unparse(a))
            except Unsupported:
                raise
            except Exception as e:
                failed.append('%s  (evaluation raised %r)' % (ast.unparse(a), e))
        if failed:
            lines = ['the real function violates the contract for inputs %s' % shown, 'result = %r' % (result,)]
            if selfobj is not None:
                lines.append('self after the call = %s' % json.dumps(dict(vars(selfobj)), default=str)[:600])
            lines += ['false natively: %s' % f[:300] for f in failed[:4]]
            return 'violated', lines
        return 'holds', ['the clause holds natively for these inputs']

    # ---- bounded search
    def search(self):
        fields = declared_fields().get(self.clsname or '', {})
        slots = []      # (where, name, pool)
        ann = {a.arg: (a.annotation.value if isinstance(a.annotation, ast.Constant) else None) for a in self.unit.args.args}
        for a in self.unit.args.args:
            if a.arg == 'self':
                continue
            p = pool_for(ann.get(a.arg))
            if p is None:
                raise Unsupported('parameter %s of type %s' % (a.arg, ann.get(a.arg)))
            slots.append(('params', a.arg, p))
        for c in self.calls:
            if c.func.id == 'kwargs':
                for k in c.keywords:
                    p = pool_for(ast.literal_eval(k.value))
                    if p is None:
                        raise Unsupported('kwarg %s' % k.arg)
                    slots.append(('kwargs', k.arg, p))
        if self.cls is not None and self.fname != '__init__':
            text = ast.unparse(self.unit)
            for f, t in sorted(fields.items()):
                short = f[len('_' + self.clsname):] if f.startswith('_' + self.clsname + '__') else f
                if ('self.' + f) not in text and ('self.' + short) not in text:
                    continue        # only the fields the contract talks about are varied
                p = pool_for(t.replace('TOpt', 'opt').replace('TList(INT)', 'octets'))
                if p is not None:
                    slots.append(('self', f, p))
        target = self.clauses()
        if not target:
            raise Unsupported('no ensures clause')
        total = 1
        for s in slots:
            total *= len(s[2])
        rnd = random.Random(1)

        def gen():
            if total <= SEARCH_BUDGET:
                for combo in itertools.product(*[s[2] for s in slots]):
                    yield combo
            else:
                for _ in range(SEARCH_BUDGET):
                    yield tuple(rnd.choice(s[2]) for s in slots)
        tried = ok_pre = 0
        for combo in gen():
            inp = {'params': {}, 'kwargs': {}, 'self': {'fields': {}}}
            for (where, name, _), v in zip(slots, combo):
                (inp['self']['fields'] if where == 'self' else inp[where])[name] = v
            tried += 1
            st, lines = self.try_inputs(inp, target)
            if st == 'pre-false':
                continue
            ok_pre += 1
            if st == 'violated':
                return 1, ['bounded native search: failing input found after %d candidates (%d satisfied the preconditions)' % (tried, ok_pre)] + lines
        return 0, ['bounded native search: no failing input among %d candidates from boundary-value pools (%d satisfied the preconditions)'
                   % (tried, ok_pre)]


def main():
    args = [a for a in sys.argv[1:] if not a.startswith('--')]
    rec = json.load(open(args[0]))
    root = args[1] if len(args) > 1 else rec.get('repo_root', '/repo')
    r = Replayer(rec, root)
    if '--search' in sys.argv:
        code, lines = r.search()
    else:
        target = r.clauses(rec.get('clause_line'))
        st, lines = r.try_inputs(rec['inputs'], target)
        code = 1 if st == 'violated' else 0
        if st == 'pre-false':
            lines = ['the inputs of the counter-model do not satisfy the precondition natively'] + lines
    for ln in lines:
        print('REPLAY: ' + ln)
    return code


if __name__ == '__main__':
    try:
        code = main()
    except Unsupported as u:
        print('REPLAY: unsupported by the native replayer: %s' % u)
        code = 2
    except BaseException as e:     # a crash of the replayer is never a failing input
        import traceback
        traceback.print_exc()
        print('REPLAY: replayer error: %r' % (e,))
        code = 3
    sys.exit(code)
