"""pyvc side of the native replay: which terms of a unit's initial state describe its inputs (plan), how model values of those
terms become a JSON record for nreplay/native.py (record).  Only units whose inputs are ints / bools / reals / lists of ints /
a `self` with such fields are planned; everything else stays `no-failing-input-found`."""
import z3

MAX_LIST = 70


def plan(eng, it, st, env):
    """-> list of (path, z3 term) or None when the unit's inputs are outside the supported shapes"""
    from pyvc.core import VInt, VBool, VReal, VList, VRef, VKwargs, VNone, VUnion, TInt, TBool, TReal, TList, TOpt
    from pyvc.heap import field_load, list_len, list_inner, flatten_union
    out = []

    def prim(path, v):
        if isinstance(v, VInt):
            out.append((path, v.t))
            return True
        if isinstance(v, VBool):
            out.append((path, v.t))
            return True
        if isinstance(v, VReal):
            out.append((path, v.t))
            return True
        if isinstance(v, VNone):
            return True
        if isinstance(v, VList) and isinstance(v.elem, TInt):
            n = list_len(st, v)
            inner = list_inner(st, v)
            out.append((path + '.#len', n))
            for i in range(MAX_LIST):
                out.append(('%s.#el.%d' % (path, i), z3.Select(inner, i)))
            return True
        if isinstance(v, VUnion):
            alts = flatten_union(v)
            nn = [(c, a) for c, a in alts if not isinstance(a, VNone)]
            if len(nn) == 1 and len(alts) == 2:
                out.append((path + '.#some', nn[0][0]))
                return prim(path, nn[0][1])
            return False
        return False
    st.spec += 1
    try:
        for name, v in env.items():
            if isinstance(v, VKwargs):
                for k, x in v.d.items():
                    if not prim('kwargs.' + k, x):
                        return None
                continue
            if name == 'self' and isinstance(v, VRef) and v.cls:
                fields = (eng.schema.classes.get(v.cls) or {})
                for attr, T_ in fields.items():
                    base = T_.base if isinstance(T_, TOpt) else T_
                    if isinstance(base, (TInt, TBool, TReal)) or (isinstance(base, TList) and isinstance(base.elem, TInt)):
                        try:
                            x = field_load(st, 'a:%s.%s' % (v.cls, attr), T_, v.t)
                        except Exception:
                            continue
                        prim('self.' + attr, x)
                continue
            if not prim('params.' + name, v):
                return None
    except Exception:
        return None
    finally:
        st.spec -= 1
    return out


def model_value(m, c):
    v = m.eval(c, model_completion=True)
    if z3.is_bv_value(v):
        return v.as_signed_long()
    if z3.is_int_value(v):
        return v.as_long()
    if z3.is_true(v):
        return True
    if z3.is_false(v):
        return False
    if z3.is_rational_value(v):
        return float(v.numerator_as_long()) / float(v.denominator_as_long())
    return None


def record(values):
    """{'params.x': 1, 'params.data.#len': 2, 'params.data.#el.0': 7, ...} -> nested inputs dict of nreplay/native.py"""
    inputs = {'params': {}, 'kwargs': {}, 'self': {'fields': {}}}
    lists = {}
    some = {}
    for path, val in values.items():
        parts = path.split('.')
        if parts[-1] == '#some':
            some['.'.join(parts[:-1])] = val
    for path, val in sorted(values.items()):
        parts = path.split('.')
        if '#len' in parts or '#el' in parts:
            base = '.'.join(parts[:parts.index('#len') if '#len' in parts else parts.index('#el')])
            d = lists.setdefault(base, {'len': 0, 'el': {}})
            if '#len' in parts:
                d['len'] = val
            else:
                d['el'][int(parts[-1])] = val
            continue
        if parts[-1] == '#some':
            continue
        tgt = inputs['self']['fields'] if parts[0] == 'self' else inputs[parts[0]]
        tgt[parts[1]] = val
    for base, d in lists.items():
        parts = base.split('.')
        n = d['len'] if isinstance(d['len'], int) else 0
        if n > MAX_LIST:
            return None     # the model needs a longer list than was extracted
        xs = [d['el'].get(i, 0) for i in range(max(0, n))]
        tgt = inputs['self']['fields'] if parts[0] == 'self' else inputs[parts[0]]
        tgt[parts[1]] = xs
    for base, flag in some.items():
        if flag is False:
            parts = base.split('.')
            tgt = inputs['self']['fields'] if parts[0] == 'self' else inputs[parts[0]]
            tgt[parts[1]] = None
    return inputs
